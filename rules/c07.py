"""C07 — Credential/presentation <-> JWT claims conversion is lossless and consistent."""
import re

import hir as H
import rulelib as L
import symrules as SR
import sym

CRATES = ["identity_credential", "identity_core"]
CJ = "identity_credential::credential::jwt_serialization"
PJ = "identity_credential::presentation::jwt_serialization"
CRED = "identity_credential::credential::credential::Credential"
PRES = "identity_credential::presentation::presentation::Presentation"
TS = "identity_core::common::timestamp::Timestamp"

WRAP = re.compile(r"(IssuanceDateClaims::new|InnerCredentialSubject::new|Timestamp::to_unix|Timestamp::from_unix|Cow::into_owned|Cow::<.*>::into_owned|IssuanceDateClaims::to_issuance_date|::clone)$")


def field_origins(lit, env, prefix=()):
    """{dotted field path: origin set} of a (nested) struct literal"""
    out = {}
    for f in lit["fields"]:
        e = H.strip(f["e"])
        key = prefix + (f["name"],)
        if e.get("k") == "struct":
            out.update(field_origins(e, env, key))
        elif e.get("k") == "block" and e.get("expr") is not None and H.strip(e["expr"]).get("k") == "call" and H.strip(e["expr"]).get("ctor") and H.strip(H.strip(e["expr"])["args"][0]).get("k") == "struct":
            out.update(field_origins(H.strip(H.strip(e["expr"])["args"][0]), env, key))
        elif e.get("k") == "call" and e.get("ctor") and e.get("args") and H.strip(e["args"][0]).get("k") == "struct":
            out.update(field_origins(H.strip(e["args"][0]), env, key))
        else:
            out[".".join(key)] = H.origins(f["e"], env, extra=WRAP)
    return out


def is_none_lit(oo):
    return oo == {("def", "core::option::Option::None::{ctor}")} or oo == {("def", "core::option::Option::None")}


def _sources(t_):
    """top-level sources a term is built from: (param, field) for `param.field…`, (param,) for a parameter used whole"""
    out = set()

    def walk(x):
        if not isinstance(x, tuple):
            return
        if x[:1] == ("field",) and isinstance(x[1], tuple) and x[1][:1] == ("param",):
            out.add((x[1][1], x[2]))
            return
        if x[:1] == ("param",):
            out.add((x[1],))
            return
        for y in (x[1:] if isinstance(x[0], str) else x):
            if isinstance(y, tuple):
                walk(y)
    walk(t_)
    return out


def flow_by_table(F, r1, fn, want, nones, src, src_fields):
    """Field flow of a claims constructor decided on its decision table (helpers inlined): on every accepting path each claims member is
    built from exactly its own source (or is None because that source is None), the duplicated members are None, there is no other
    member, and every field of the source structure is carried — whichever way the function takes the structure apart."""
    tab = SR.Table(F, fn, rule=r1, max_paths=6000)
    oks = tab.ok()
    used = set()
    for q in oks:
        out = q.ret.fields[0] if isinstance(q.ret, sym.V) and q.ret.fields else q.ret
        if not r1.require(isinstance(out, sym.St), (fn, "literal"), "%s does not return a claims structure the evaluator can see" % fn.rsplit("::", 2)[-2]):
            continue
        flat = {}
        for k_, v_ in out.f.items():
            if isinstance(v_, sym.St) and k_ in ("vc", "vp"):
                for k2_, v2_ in v_.f.items():
                    flat[k_ + "." + k2_] = v2_
            else:
                flat[k_] = v_
        for k_, w_ in want.items():
            tv = sym.term(flat[k_]) if k_ in flat else None
            ss = _sources(tv) if tv is not None else set()
            w2 = tuple(w_[:2]) if len(w_) > 1 else tuple(w_)
            okf = ss == {w2}
            if not okf and tv == ("ctor", "None"):
                # absent because the source is: the path decided that the source (or the part of it that is carried) is None
                base_ = ("field", ("param", w_[0]), w_[1]) if len(w_) > 1 else ("param", w_[0])
                okf = any(v__ == "None" and isinstance(t__, tuple) and (t__ == base_ or any(y_ == base_ for y_ in sym.subterms(t__))) for t__, v__ in q.variant.items())
            r1.require(okf, (fn, "field", k_), "claims field %s is built from %s, expected %s" % (k_, sorted(".".join(x_) for x_ in ss) or sym.fmt(tv) if tv is not None else None, ".".join(w_)))
            if okf and len(w_) > 1 and w_[0] == src:
                used.add(w_[1])
        for k_ in nones:
            r1.require(k_ in flat and sym.term(flat[k_]) == ("ctor", "None"), (fn, "carried-once", k_), "%s must be None in the produced claims (the value is carried once, in the registered claim): %s" % (k_, sym.fmt(sym.term(flat[k_])) if k_ in flat else None))
        r1.require(set(flat) == set(want) | set(nones), (fn, "literal-fields"), "unexpected/missing members in the claims: %s" % sorted(set(flat) ^ (set(want) | set(nones))))
    for k_, w_ in want.items():
        r1.site("%s: claims.%s ← %s" % (fn.rsplit("::", 2)[-2], k_, ".".join(w_)))
    for k_ in nones:
        r1.site("%s: claims.%s = None" % (fn.rsplit("::", 2)[-2], k_))
    if oks:
        r1.require(used == set(src_fields), (fn, "all-fields-used"), "%s fields not carried into the claims: %s" % (src, sorted(set(src_fields) - used)))
    r1.require(bool(oks) or not tab.paths, (fn, "literal"), "%s has no accepting path" % fn)


def run(F, R, tier):
    R.undecided += [
        "JSON-level equality of arbitrary `properties`/custom maps (serde `flatten` collisions between custom claims and registered names)",
        "serde round trip of each field type (delegated to serde and the field types' own impls)",
    ]
    cred_fields = [f["name"] for f in (F.adt_fields(CRED) or [])]
    pres_fields = [f["name"] for f in (F.adt_fields(PRES) or [])]

    # ------------------------------------------------------------------ R1 forward field flow
    r1 = R.rule("C07-R1", "T8", "CredentialJwtClaims::new / PresentationJwtClaims::new, on their decision tables (helpers inlined): every claims member is built from exactly its own source field, every field of the credential / presentation is carried, duplicated vc/vp members are None")
    fn = CJ + "::CredentialJwtClaims::new"
    h = F.hir(fn)
    if r1.anchor(h, fn) and r1.require(bool(cred_fields), (CRED, "fields"), "Credential fields not found"):
        want = {
            "exp": ("credential", "expiration_date"), "iss": ("credential", "issuer"), "issuance_date": ("credential", "issuance_date"),
            "jti": ("credential", "id"), "sub": ("credential", "credential_subject", "One", "0", "id"),
            "vc.context": ("credential", "context"), "vc.types": ("credential", "types"),
            "vc.credential_subject": ("credential", "credential_subject", "One", "0"),
            "vc.credential_schema": ("credential", "credential_schema"), "vc.credential_status": ("credential", "credential_status"),
            "vc.refresh_service": ("credential", "refresh_service"), "vc.terms_of_use": ("credential", "terms_of_use"),
            "vc.evidence": ("credential", "evidence"), "vc.non_transferable": ("credential", "non_transferable"),
            "vc.properties": ("credential", "properties"), "vc.proof": ("credential", "proof"), "custom": ("custom",),
        }
        flow_by_table(F, r1, fn, want, ["vc.id", "vc.issuance_date", "vc.expiration_date", "vc.issuer"], "credential", cred_fields)
    # IssuanceDateClaims::new: nbf = Some(to_unix), iat = None
    fn2 = CJ + "::IssuanceDateClaims::new"
    h2 = F.hir(fn2)
    if r1.anchor(h2, fn2):
        env = H.Env(h2)
        for s in H.struct_lits(h2):
            fo = field_origins(s, env)
            r1.site("IssuanceDateClaims{nbf ← %s, iat ← %s}" % (sorted(map(str, fo.get("nbf", []))), sorted(map(str, fo.get("iat", [])))), s["sp"])
            r1.require(fo.get("nbf") == {("param", "issuance_date")}, (fn2, "nbf"), "nbf is not the issuance date")
            r1.require(is_none_lit(fo.get("iat", set())), (fn2, "iat"), "iat must not be emitted")
    fn = PJ + "::PresentationJwtClaims::new"
    h = F.hir(fn)
    if r1.anchor(h, fn) and r1.require(bool(pres_fields), (PRES, "fields"), "Presentation fields not found"):
        want = {
            "iss": ("presentation", "holder"), "jti": ("presentation", "id"), "vp.context": ("presentation", "context"), "vp.types": ("presentation", "types"),
            "vp.verifiable_credential": ("presentation", "verifiable_credential"), "vp.refresh_service": ("presentation", "refresh_service"),
            "vp.terms_of_use": ("presentation", "terms_of_use"), "vp.properties": ("presentation", "properties"), "vp.proof": ("presentation", "proof"),
            "exp": ("options", "expiration_date"), "issuance_date": ("options", "issuance_date"), "aud": ("options", "audience"), "custom": ("options", "custom_claims"),
        }
        flow_by_table(F, r1, fn, want, ["vp.id", "vp.holder"], "presentation", pres_fields)
    # the option-sourced claims of a presentation (exp, nbf/iat, aud): present in the claims exactly when the option is — an absent option
    # must not become a claim (a defaulted `nbf = now` comes back as an issuance date the presentation never had), a present one carries
    # the option's value
    pn = PJ + "::PresentationJwtClaims::new"
    if F.hir(pn) is not None:
        tabo = SR.Table(F, pn, rule=r1, max_paths=6000)
        OPTP = SR.param("options")
        for q in tabo.paths:
            out = q.ret.fields[0] if isinstance(q.ret, sym.V) and q.ret.fields else q.ret
            if not isinstance(out, sym.St):
                continue
            for cl, of in (("exp", "expiration_date"), ("issuance_date", "issuance_date"), ("aud", "audience")):
                OF = ("field", OPTP, of)
                tv = sym.term(out.f.get(cl)) if cl in out.f else None
                var = SR.variant(q, OF)
                if tv == OF:
                    continue                      # the Option handed over as it is
                if var == "None":
                    r1.require(tv == ("ctor", "None"), (pn, "option-claim", cl, "absent"), "options.%s is None but the claims carry %s = %s: the round trip invents a value" % (of, cl, sym.fmt(tv)[:80] if tv else None))
                elif var == "Some":
                    pay = ("payload", OF, "Some", 0)
                    r1.require(tv is not None and tv[:2] == ("ctor", "Some") and any(x == pay for x in sym.subterms(tv)) and "unwrap_or" not in sym.fmt(tv), (pn, "option-claim", cl, "present"),
                               "options.%s is Some(_) but claims.%s is not built from it: %s" % (of, cl, sym.fmt(tv)[:80] if tv else None))
                else:
                    r1.fail((pn, "option-claim", cl, "undecided"), "claims.%s is computed without deciding whether options.%s is present: %s" % (cl, of, sym.fmt(tv)[:100] if tv else None))
        r1.site("PresentationJwtClaims::new: exp / issuance_date / aud present in the claims exactly when the option is, on %d path(s)" % len(tabo.paths))
    # whole-value flow, by abstract evaluation: on every path every field of the source that is present has an image in the
    # claims that is the *whole* value (conversions only) — a filtered, truncated or conditionally dropped field has none
    WCONV = re.compile(r"(try_from|from|into|try_into|as_ref|as_slice|as_str|deref|borrow|clone|cloned|to_owned|to_string|new|unix_timestamp|to_unix|Borrowed|Owned|map|as_deref)$")
    for fn_, src_name, ty_ in ((CJ + "::CredentialJwtClaims::new", "credential", CRED), (PJ + "::PresentationJwtClaims::new", "presentation", PRES)):
        if F.hir(fn_) is None:
            continue
        tabn = SR.Table(F, fn_, rule=r1, max_paths=6000)
        SRC = SR.param(src_name)
        fields = [f_["name"] for f_ in (F.adt_fields(ty_) or [])]

        def leaves(v, out):
            if isinstance(v, sym.V):
                for x in v.fields:
                    leaves(x, out)
                if not v.fields:
                    out.append(sym.term(v))
            elif isinstance(v, sym.St):
                for x in v.f.values():
                    leaves(x, out)
            elif isinstance(v, (tuple, list)):
                for x in v:
                    leaves(x, out)
            else:
                out.append(sym.term(v))
            return out

        def whole(t_, root, q):
            if SR.pure(t_, root, conv=WCONV):
                return True
            # present Option / single-variant payloads of the field: Some(x) ↦ Some(conv(x))
            for var in ("Some", "One", "Url", "Obj"):
                if q.variant.get(root) == var and whole(t_, ("payload", root, var, 0), q):
                    return True
            return False
        for q in tabn.paths:
            if SR.is_failure(q.ret) or (isinstance(q.ret, sym.V) and q.ret.name == "Panic"):
                continue
            ls = leaves(q.ret, [])
            for f_ in fields:
                S = ("field", SRC, f_)
                if q.variant.get(S) == "None":
                    continue
                got = [t_ for t_ in ls if SR.derives(t_, S)]
                good = [t_ for t_ in got if whole(t_, S, q) or any(whole(t_, ("field", S, sub), q) or whole(t_, ("field", ("payload", S, "One", 0), sub), q) for sub in ("id", "properties", "0"))]
                r1.require(bool(good), (fn_, "whole-value", f_), "%s.%s does not reach the claims as a whole value on some input (it is filtered, reduced or dropped): images %s — path: %s" % (
                    src_name, f_, [sym.fmt(t_)[:60] for t_ in got][:3], q.describe()[:160]))
        r1.site("%s: every present field of the %s has a whole-value image in the claims on %d evaluated path(s)" % (L.short(fn_), src_name, len(tabn.paths)))
    r1.floor(37)

    # ------------------------------------------------------------------ R2 backward field flow
    r2 = R.rule("C07-R2", "T5", "try_into_credential / try_into_presentation: every field of the result derives from the matching claim; only duplicated members are discarded")
    cred_discard = pres_discard = None

    def flow(fn, claims_ty, inner_ty, inner_name, out_fields, want, label):
        """On the decision table of a claims → value conversion: every accepting path returns a value each of whose fields is the whole
        matching claim (Option-lifted, timestamps through their conversion oracle); returns the set of claim members that reach no
        field on any accepting path (the discarded ones)."""
        tab = SR.Table(F, fn, opaque=r"check_consistency$|to_issuance_date$|Timestamp::from_unix$", rule=r2, max_paths=6000)
        members = {f["name"] for f in (F.adt_fields(claims_ty) or [])} - {inner_name}
        members |= {inner_name + "." + f["name"] for f in (F.adt_fields(inner_ty) or [])}
        used = set()

        def mterm(path_):
            t_ = SR.SELF
            for seg in path_.split("."):
                t_ = ("field", t_, seg)
            return t_

        def lifted(q, v, src):
            """v is src itself, or None/Some(payload of src) according to the path's decision about src, or a conversion oracle of it"""
            if v is None:
                return False
            if isinstance(v, sym.V) and v.name == "None" and not v.fields:
                return q.variant.get(src) == "None"
            if isinstance(v, sym.V) and v.name == "Some" and len(v.fields) == 1:
                inner = sym.term(v.fields[0])
                if SR.pure(inner, ("payload", src, "Some", 0)):
                    return q.variant.get(src) == "Some"
                # Some(from_unix(src!Some)!Ok)
                if isinstance(inner, tuple) and inner[:1] == ("payload",) and isinstance(inner[1], tuple) and inner[1][:1] == ("call",) and inner[1][1].endswith("Timestamp::from_unix"):
                    return len(inner[1][2]) == 1 and SR.pure(inner[1][2][0], ("payload", src, "Some", 0)) and inner[2] == "Ok"
                return False
            t_ = sym.term(v)
            if SR.pure(t_, src):
                return True
            if isinstance(t_, tuple) and t_[:1] == ("payload",) and isinstance(t_[1], tuple) and t_[1][:1] == ("call",) and t_[1][1].endswith("to_issuance_date") and t_[2] == "Ok":
                return len(t_[1][2]) == 1 and SR.pure(t_[1][2][0], src)
            return False
        n_ok = 0
        for q in tab.ok():
            cc = q.calls(r"check_consistency$")
            if F.hir(claims_ty + "::check_consistency") is not None:        # (written into the conversion itself otherwise: C07-R3 decides it there)
                r2.require(bool(cc) and q.succeeded(cc[0]) is True and SR.pure(cc[0].args[0], SR.SELF), (fn, "consistency-first"), "%s can succeed without check_consistency(self) ✓" % label)
            out = q.ret.fields[0] if isinstance(q.ret, sym.V) and q.ret.fields else None
            if not r2.require(isinstance(out, sym.St), (fn, "literal"), "%s does not return a value the evaluator can see field by field" % label):
                continue
            n_ok += 1
            flat = {}
            for k, v in out.f.items():
                if k == "credential_subject" and isinstance(v, sym.V) and v.name == "One" and v.fields and isinstance(v.fields[0], sym.St):
                    for k2, v2 in v.fields[0].f.items():
                        flat["credential_subject." + k2] = v2
                else:
                    flat[k] = v
            r2.require({k.split(".")[0] for k in flat} == set(out_fields), (fn, "literal-fields"), "%s does not set exactly the fields of the result type: %s" % (label, sorted(flat)))
            for k, w in want.items():
                src = mterm(w)
                okf = lifted(q, flat.get(k), src)
                r2.require(okf, (fn, "field", k), "%s field %s is %s, expected the whole claim %s" % (label, k, sym.fmt(sym.term(flat[k])) if k in flat else "missing", w))
            for v in flat.values():
                for x in sym.subterms(sym.term(v)):
                    for m_ in members:
                        if x == mterm(m_):
                            used.add(m_)
        for k, w in want.items():
            r2.site("%s.%s ← claims.%s (whole value) on %d accepting path(s)" % (label, k, w, n_ok))
        # a member counts as used when it or a sub-member of it flows
        return {m_ for m_ in members if m_ not in used and not any(u.startswith(m_ + ".") for u in used)} if n_ok else None

    fn = CJ + "::CredentialJwtClaims::try_into_credential"
    if r2.anchor(F.hir(fn), fn):
        want = {
            "context": "vc.context", "id": "jti", "types": "vc.types", "credential_subject.id": "sub", "credential_subject.properties": "vc.credential_subject.properties",
            "issuer": "iss", "issuance_date": "issuance_date", "expiration_date": "exp", "credential_status": "vc.credential_status", "credential_schema": "vc.credential_schema",
            "refresh_service": "vc.refresh_service", "terms_of_use": "vc.terms_of_use", "evidence": "vc.evidence", "non_transferable": "vc.non_transferable",
            "properties": "vc.properties", "proof": "vc.proof",
        }
        cred_discard = flow(fn, CJ + "::CredentialJwtClaims", CJ + "::InnerCredential", "vc", cred_fields, want, "credential")
        if cred_discard is not None:
            cred_discard -= {"vc.credential_subject"} if "vc.credential_subject" in cred_discard else set()
            r2.require(cred_discard == {"custom", "vc.id", "vc.issuance_date", "vc.issuer", "vc.expiration_date"}, (fn, "discards"),
                       "try_into_credential discards %s; only custom (returned separately) and the duplicated vc members may be dropped" % sorted(cred_discard or []))
    fn = PJ + "::PresentationJwtClaims::try_into_presentation"
    if r2.anchor(F.hir(fn), fn):
        want = {"context": "vp.context", "id": "jti", "types": "vp.types", "verifiable_credential": "vp.verifiable_credential", "holder": "iss", "refresh_service": "vp.refresh_service",
                "terms_of_use": "vp.terms_of_use", "properties": "vp.properties", "proof": "vp.proof"}
        pres_discard = flow(fn, PJ + "::PresentationJwtClaims", PJ + "::InnerPresentation", "vp", pres_fields, want, "presentation")
        if pres_discard is not None:
            r2.require(pres_discard == {"exp", "issuance_date", "aud", "custom", "vp.id", "vp.holder"}, (fn, "discards"),
                       "try_into_presentation discards %s; only exp/issuance_date/aud/custom (returned by the validator from the claims) and the duplicated vp members may be dropped" % sorted(pres_discard or []))
    r2.floor(25)

    # ------------------------------------------------------------------ R3 consistency before reconstruction
    r3 = R.rule("C07-R3", "T2+T5", "check_consistency ✓ dominates reconstruction; it compares exactly the discarded duplicated members; a present vc/vp member with an absent registered claim is rejected")
    specs = [
        (CJ + "::CredentialJwtClaims", "try_into_credential", "vc", {
            "issuer": ("iss", False), "issuance_date": ("issuance_date", False), "expiration_date": ("exp", True), "id": ("jti", True), "credential_subject.id": ("sub", True)},
         cred_discard, "InconsistentCredentialJwtClaims"),
        (PJ + "::PresentationJwtClaims", "try_into_presentation", "vp", {"id": ("jti", True), "holder": ("iss", False)}, pres_discard, "InconsistentPresentationJwtClaims"),
    ]
    for ty, conv, inner, pairs, discard, errv in specs:
        inlined = F.hir(ty + "::check_consistency") is None and F.hir(ty + "::" + conv) is not None
        if not inlined:
            L.require_tried_before_success(r3, F, ty + "::" + conv, [("check_consistency", ty + "::check_consistency")])
            L.mir_success_dominates(r3, F, ty + "::" + conv, ty + "::check_consistency", "check_consistency")
            fn = ty + "::check_consistency"
        else:
            # no separate helper: the comparisons are written into the conversion — the same clauses are decided on the accepting paths of
            # the conversion itself (every one of them has then passed the comparisons)
            fn = ty + "::" + conv
            r3.site("%s: consistency checks are part of the conversion; decided on its own accepting paths" % L.short(fn))
            r3.site("%s: (no separate check_consistency to dominate)" % L.short(fn))
        if not r3.anchor(F.hir(fn), fn):
            continue
        tab = SR.Table(F, fn, opaque=r"to_issuance_date$|Timestamp::to_unix$" + (r"|Timestamp::from_unix$" if inlined else ""), rule=r3, max_paths=6000)
        INNER = SR.fld(inner)

        def mterm(member):
            t_ = INNER
            for seg in member.split("."):
                t_ = ("field", t_, seg)
            return t_
        # members of vc/vp examined by check_consistency (over all paths)
        read = set()
        for q in tab.paths:
            for t_ in q.variant:
                if inlined and not any(SR.derives(t_, mterm(m_)) or t_ == mterm(m_) for m_ in pairs):
                    continue      # (the conversion also looks at the members it carries over)
                if SR.derives(t_, INNER) and t_[:1] == ("field",):
                    x, segs = t_, []
                    while x != INNER and x[:1] == ("field",):
                        segs.append(x[2])
                        x = x[1]
                    if x == INNER:
                        read.add(".".join(reversed(segs)))
            for (a, c, _, _) in q.decisions:
                if a[0] == "eq":
                    for side in (a[1], a[2]):
                        for m_ in pairs:
                            if SR.derives(side, mterm(m_)):
                                read.add(m_)
        read = {r_ for r_ in read if not any(r_ != q_ and q_.startswith(r_ + ".") for q_ in read)}
        r3.site("%s::check_consistency reads %s members %s" % (L.short(ty), inner, sorted(read)))
        r3.require(read == set(pairs), (fn, "members-compared"), "check_consistency compares %s of %s, expected %s" % (sorted(read), inner, sorted(pairs)))
        if discard is not None:
            dd = {d[len(inner) + 1:] for d in discard if d.startswith(inner + ".")}
            cmp_ = {p_.split(".")[0] for p_ in pairs} - {"credential_subject"}
            r3.require(dd == cmp_, (fn, "siblings"), "members discarded by %s (%s) differ from the members check_consistency compares (%s): a discarded member is silently resolved" % (conv, sorted(dd), sorted(cmp_)))
        for q in ([] if inlined else tab.err()):
            en = SR.err_name(q.ret)
            r3.require(en == errv or "to_issuance_date" in sym.fmt(sym.term(q.ret)), (fn, "guard-outcome"), "a consistency guard returns %s" % en)
        # decision: on every accepting path a present member equals its registered claim (which must then be present too)
        CCONV = re.compile(r"(try_from|from|into|as_ref|as_str|as_deref|deref|borrow|clone|to_owned|to_unix|unix_timestamp|to_issuance_date|Borrowed|Owned)$")
        for member, (claim, optional) in pairs.items():
            mt = mterm(member)
            ct = SR.fld(claim)
            n_present = 0
            for q in tab.ok():
                if SR.variant(q, mt) != "Some":
                    # establishment: an accepting path has looked at the member (absent), it has not merely failed to reach its check
                    r3.require(SR.variant(q, mt) == "None", (fn, "unexamined", member),
                               "%s.%s is never examined on an accepting path of check_consistency (a value there that disagrees with `%s` is silently dropped) — path: %s" % (
                                   inner, member, claim, q.describe()[:200]))
                    continue
                n_present += 1
                mp = ("payload", mt, "Some", 0)
                eq_ok = False
                for (a, c, _, _) in q.decisions:
                    if a[0] == "eq" and c is True:
                        x, y = a[1], a[2]
                        for u_, w_ in ((x, y), (y, x)):
                            if SR.pure(u_, mp, conv=CCONV) and (SR.pure(w_, ct, conv=CCONV) or SR.pure(w_, ("payload", ct, "Some", 0), conv=CCONV)):
                                eq_ok = True
                claim_ok = (not optional) or SR.variant(q, ct) == "Some" or eq_ok and not any(SR.variant(q, ct) == "None" for _ in (0,))
                r3.require(eq_ok and claim_ok and SR.variant(q, ct) != "None", (fn, "absent-claim", member),
                           "%s.%s present is accepted although the registered claim `%s` is %s: the duplicated value is silently dropped — path: %s" % (
                               inner, member, claim, "absent" if SR.variant(q, ct) == "None" else "not compared with it", q.describe()[:220]))
            r3.site("%s.%s present ⇒ equals claim `%s` on %d accepting path(s)" % (inner, member, claim, n_present))
            r3.site("%s.%s absent → passes" % (inner, member))
        allnone = [q for q in tab.ok() if all(SR.variant(q, mterm(m_)) == "None" for m_ in pairs)]
        r3.require(bool(allnone) or not tab.paths, (fn, "all-absent"), "claims without duplicated members are rejected")
    r3.floor(20)

    # ------------------------------------------------------------------ R4 dates
    r4 = R.rule("C07-R4", "T2+T4", "every i64 → Timestamp goes through Timestamp::from_unix with the error propagated; issuance prefers nbf, falls back to iat, errors when both are absent")
    fn = CJ + "::IssuanceDateClaims::to_issuance_date"
    if r4.anchor(F.hir(fn), fn):
        # decision table by abstract evaluation: nbf present → from_unix(nbf)? (its error is NOT swallowed, no fallback to iat);
        # nbf absent, iat present → from_unix(iat)?; both absent → error
        tab = SR.Table(F, fn, opaque=r"Timestamp::from_unix$", rule=r4)
        NBF, IAT = SR.fld("nbf"), SR.fld("iat")
        rows = set()
        for q in tab.paths:
            nv, iv = SR.variant(q, NBF), SR.variant(q, IAT)
            conv = [(sym.term(e.args[0]), q.succeeded(e)) for e in q.calls(r"Timestamp::from_unix$")]
            ok = SR.is_success(q.ret)
            rows.add((nv, iv, "Ok" if ok else "Err"))
            if nv == "Some":
                src = ("payload", NBF, "Some", 0)
                r4.require(any(a == src for a, _ in conv), (fn, "prefers-nbf"), "to_issuance_date does not convert nbf when it is present")
                good = [sc for a, sc in conv if a == src]
                if ok:
                    r4.require(good == [True] and len(conv) == 1 and SR.derives(q.ret, ("call", TS + "::from_unix", (src,))), (fn, "nbf-error-propagated"),
                               "with nbf present the result is not from_unix(nbf)? (an out-of-range nbf must be an error, not a fallback to iat) — path: %s" % q.describe()[:200])
                else:
                    r4.require(good and good[-1] is False, (fn, "nbf-error-propagated"), "with nbf present the function fails for another reason than from_unix(nbf) failing")
            elif nv == "None" and iv == "Some":
                src = ("payload", IAT, "Some", 0)
                if ok:
                    r4.require(SR.derives(q.ret, ("call", TS + "::from_unix", (src,))) and [sc for a, sc in conv if a == src] == [True], (fn, "fallback-iat"), "to_issuance_date does not fall back to from_unix(iat)?")
            elif nv == "None" and iv == "None":
                r4.require(not ok, (fn, "both-absent"), "both nbf and iat absent is not an error")
            else:
                r4.require(not ok or nv is not None, (fn, "shape"), "to_issuance_date succeeds without looking at nbf")
        r4.site("to_issuance_date rows (nbf, iat → outcome): %s" % sorted(rows, key=str))
        r4.site("issuance date prefers nbf")
        r4.site("iat absent → error")
        want = {("Some", None, "Ok"), ("Some", None, "Err"), ("None", "Some", "Ok"), ("None", "Some", "Err"), ("None", "None", "Err")}
        r4.require({(a, b, c) for a, b, c in rows if a == "None"} >= {x for x in want if x[0] == "None"} and any(a == "Some" and c == "Ok" for a, b, c in rows) or not tab.paths, (fn, "from_unix"),
                   "to_issuance_date does not convert both nbf and iat through Timestamp::from_unix: %s" % sorted(rows, key=str))
    fn = CJ + "::CredentialJwtClaims::try_into_credential"
    if F.hir(fn) is not None:
        # on the decision table: a present exp goes through from_unix and a failing conversion (of exp or of the issuance date) is the
        # function's error, never a silently absent date
        tab = SR.Table(F, fn, opaque=r"check_consistency$|to_issuance_date$|Timestamp::from_unix$", rule=r4, max_paths=6000)
        EXP = SR.fld("exp")
        seen = set()
        for q in tab.paths:
            fu = [e for e in q.calls(r"Timestamp::from_unix$") if SR.pure(e.args[0], ("payload", EXP, "Some", 0))]
            ti = [e for e in q.calls(r"to_issuance_date$") if SR.pure(e.args[0], SR.fld("issuance_date"))]
            ok = SR.is_success(q.ret) and not SR.is_failure(q.ret)
            if q.variant.get(EXP) == "Some":
                if ok:
                    r4.require(len(fu) == 1 and q.succeeded(fu[0]) is True, (fn, "exp-from_unix"), "exp is not converted with Timestamp::from_unix (range gate)")
                    seen.add("exp-ok")
                if fu and q.succeeded(fu[0]) is False:
                    r4.require(not ok, (fn, "exp-propagated"), "the exp conversion error is not propagated")
                    seen.add("exp-err")
            if ti and q.succeeded(ti[0]) is False:
                r4.require(not ok, (fn, "issuance-propagated"), "a failing to_issuance_date() does not fail the conversion")
                seen.add("iss-err")
            if ok:
                r4.require(bool(ti) and q.succeeded(ti[0]) is True, (fn, "issuance-propagated"), "issuance date is not to_issuance_date()?")
                r4.require(q.variant.get(EXP) in ("Some", "None"), (fn, "exp-from_unix"), "the conversion succeeds without having examined the exp claim")
        r4.site("try_into_credential: exp → from_unix ✓ / error propagated; issuance date → to_issuance_date()?: %s" % sorted(seen))
        r4.require({"exp-ok", "exp-err", "iss-err"} <= seen or not tab.paths, (fn, "exp-from_unix"), "the date conversions of try_into_credential do not show the rows Ok / exp error / issuance error: %s" % sorted(seen))
    # no other way from i64 to Timestamp in these modules (unwrap of from_unix etc.)
    for p in F.find(r"^identity_credential::(credential|presentation)::jwt_serialization::"):
        b = F.mir(p, follow_async=False)
        if b is None:
            continue
        for bi, t in b.calls(TS + "::from_unix"):
            import c01
            use = c01.result_use(b, bi)
            r4.site("%s: from_unix result %s" % (L.short(p), use), t["sp"])
            r4.require(use in ("propagated", "returned", "matched"), (p, "from_unix-result", use), "Timestamp::from_unix result is %s in %s" % (use, L.short(p)), t["sp"])
    # the presentation's nbf/iat are converted where the presentation is validated (JwtPresentationValidator::validate): that this conversion
    # is `Some(to_issuance_date()?)` whenever either claim is present — error propagated, never `.ok()` — is C03-R3
    L.depends_on(r4, F, tier, ["C03-R3"], "a presentation's numeric issuance date outside 0000-9999 is rejected, not dropped")
    r4.floor(5)

    # ------------------------------------------------------------------ R5 serde wiring
    r5 = R.rule("C07-R5", "T12", "what the writer omits the reader restores: every skip_serializing_if field is Option-typed or has a default; custom claims are flattened")
    for ty in (CJ + "::CredentialJwtClaims", CJ + "::InnerCredential", CJ + "::IssuanceDateClaims", CJ + "::InnerCredentialSubject", PJ + "::PresentationJwtClaims", PJ + "::InnerPresentation"):
        a = F.ast_item(ty)
        if not r5.anchor(a, ty):
            continue
        for f in a["fields"]:
            attrs = " ".join(f["attrs"])
            if "skip_serializing_if" in attrs or "skip_serializing" in attrs:
                ok = f["ty"].replace(" ", "").startswith("Option<") or "default" in attrs
                r5.site("%s.%s: %s [%s]" % (L.short(ty), f["name"], f["ty"], attrs[:80]), f["span"])
                r5.require(ok, (ty, f["name"], "skip-without-default"), "%s.%s is skipped when serialising but is neither Option nor #[serde(default)]: deserialising the library's own output fails" % (L.short(ty), f["name"]))
            if f["name"] == "custom":
                r5.require("flatten" in attrs, (ty, "custom", "flatten"), "custom claims are not flattened into the claims set")
    for ty in (CJ + "::CredentialJwtClaims", CJ + "::InnerCredential", CJ + "::IssuanceDateClaims", PJ + "::PresentationJwtClaims", PJ + "::InnerPresentation", CRED, PRES):
        L.serde_skip_inverse(r5, F, ty)
    r5.floor(27)


def _discards(h, rule, fn, tys):
    """Fields bound to `_` in the destructuring patterns of the given struct types: {prefixed field names}"""
    out = set()
    found = 0
    for n in H.walk(H.root(h)):
        if n.get("k") == "let" and n["pat"].get("k") == "struct" and n["pat"].get("ty") in tys:
            found += 1
            pre = tys[n["pat"]["ty"]]
            rule.require(not n["pat"]["rest"], (fn, "pattern-rest", n["pat"]["ty"]), "destructuring of %s uses `..`: fields can be dropped silently" % L.short(n["pat"]["ty"]))
            for f in n["pat"]["fields"]:
                if f["pat"].get("k") == "wild":
                    out.add(pre + f["name"])
            rule.site("%s: exhaustive destructuring of %s, discards %s" % (L.short(fn), L.short(n["pat"]["ty"]), sorted(x for x in out if x.startswith(pre) or not pre)), n["sp"])
    rule.require(found == len(tys), (fn, "patterns"), "expected %d exhaustive destructuring patterns, found %d" % (len(tys), found))
    return out
