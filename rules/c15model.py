"""C15: the in-memory stores evaluated abstractly on a concrete two-entry map {k0→v0, k1→v1} with a symbolic argument key.

The RwLock guard is the map itself (one thread of control; the lock span is C15-R1's business).  The outcome and the final map
of every path are compared with what a map model gives in that path's world (key == k0 | key == k1 | neither)."""
import re

import sym as SY
import symrules as SR

SHARED = "identity_storage::key_storage::memstore::shared::Shared"
P = lambda x: SY.Sym(("param", x))  # noqa: E731
ENTRIES = [("k0", "v0"), ("k1", "v1")]


def store(ty, field):
    return SY.St(ty, {field: SY.St(SHARED, {"0": SY.MapV([(P(k), P(v)) for k, v in ENTRIES])})})


def world_of(q, keyname):
    """'k0' | 'k1' | None (absent) | '?' (the path did not compare the key with every entry it needed)"""
    val = {}
    for (a, c, _, _) in q.decisions:
        if a[0] == "eq":
            names = [t_[1] for t_ in (a[1], a[2]) if isinstance(t_, tuple) and t_[:1] == ("param",)]
            if keyname in names:
                other = [n_ for n_ in names if n_ != keyname]
                if other and other[0] in ("k0", "k1"):
                    val[other[0]] = bool(c)
    for k, _ in ENTRIES:
        if val.get(k) is True:
            return k
    if all(val.get(k) is False for k, _ in ENTRIES):
        return None
    return "?"


def final_map(a, field):
    m = a[0].f[field].f["0"] if isinstance(a[0].f.get(field), SY.St) else a[0].f.get(field)
    if not isinstance(m, SY.MapV):
        return None
    out = {}
    for k, v in m.items:
        kt, vt = SY.term(k), SY.term(v)
        out[kt[1] if isinstance(kt, tuple) and kt[:1] == ("param",) else SY.fmt(kt)] = vt
    return out


INITIAL = {k: ("param", v) for k, v in ENTRIES}


def run_op(F, rule, fn, ty, field, argnames, keyname, judge, opaque=None, label=None):
    """judge(q, world, final_map) -> error text | None, for every complete path"""
    label = label or fn
    ev = SY.Evaluator(F, opaque=opaque, inline_depth=6, concrete_vec=True)

    def fin(p_, a):
        p_.final = final_map(a, field)
    try:
        paths = ev.explore(fn, args=lambda: [store(ty, field)] + [P(x) for x in argnames], finalize=fin, max_paths=3000)
    except (SY.Abort, SY.TooManyPaths) as e:
        rule.fail((fn, "not-evaluable"), "%s could not be evaluated on the map model: %s" % (label, e))
        return set()
    worlds = set()
    for q in paths:
        if not q.complete or getattr(q, "final", None) is None:
            rule.fail((fn, "not-evaluable"), "%s: a path could not be evaluated to the end (%s)" % (label, q.note))
            continue
        if isinstance(q.ret, SY.V) and q.ret.name == "Panic":
            rule.fail((fn, "panics"), "%s panics on a path: %s" % (label, q.describe()[:160]))
            continue
        w = world_of(q, keyname)
        err = judge(q, w, q.final)
        if err:
            rule.fail((fn,) + err[0], "%s: %s" % (label, err[1]))
        worlds.add(w)
    return worlds
