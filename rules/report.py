"""Rule instances, findings, evidence and known-findings handling."""
import json
import os
import time

VERIF = os.path.dirname(os.path.dirname(os.path.abspath(__file__)))


class Rule:
    def __init__(self, rep, rid, template, text):
        self.rep = rep
        self.rid = rid
        self.template = template
        self.text = text
        self.sites = []        # matched constructs (dicts)
        self.fails = []        # (key, msg, where)
        self.floor_n = 0
        self.exceptions = []   # (symbol, kind, reason)
        self.notes = []

    def site(self, what, where=None, **kw):
        d = {"what": what}
        if where:
            d["where"] = where
        d.update(kw)
        self.sites.append(d)
        return d

    def fail(self, key, msg, where=None):
        """key: tuple/str identifying the violating construct WITHOUT line numbers."""
        if isinstance(key, (list, tuple)):
            key = "|".join(str(k) for k in key)
        full = "%s|%s" % (self.rid, key)
        if any(k == full for k, _, _ in self.fails):
            return   # one finding per key (a rule evaluated on many paths reports the first witness)
        self.fails.append((full, msg, where))

    def require(self, cond, key, msg, where=None):
        if not cond:
            self.fail(key, msg, where)
        return bool(cond)

    def anchor(self, obj, name):
        """Fail closed when an anchored symbol has disappeared."""
        if obj is None:
            self.fail(("ANCHOR-MISSING", name), "anchored symbol `%s` not found in the extracted program" % name)
            return False
        return True

    def floor(self, n):
        self.floor_n = n
        if len(self.sites) < n:
            self.fail(("FLOOR", n), "rule matched %d site(s), fewer than the %d confirmed by hand — the rule has gone (partly) inert" % (len(self.sites), n))

    def exception(self, symbol, kind, reason):
        """kind: 'checked' (discharged by another rule / verified guard) or 'reviewed' (frozen human judgement)."""
        self.exceptions.append({"symbol": symbol, "kind": kind, "reason": reason})

    def note(self, s):
        self.notes.append(s)


class Reporter:
    def __init__(self, pid, tier, seed=0):
        self.pid = pid
        self.tier = tier
        self.seed = seed
        self.rules = []
        self.t0 = time.time()
        self.extra = {}
        self.undecided = []
        self.trusted = []
        self.configs = []
        self.fixtures = []

    def rule(self, rid, template, text):
        r = Rule(self, "%s" % rid, template, text)
        self.rules.append(r)
        return r

    # ---- finishing --------------------------------------------------------------------------------
    def finish(self, stats):
        kf_path = os.path.join(VERIF, "known_findings.json")
        known = {}
        if os.path.exists(kf_path):
            kf = json.load(open(kf_path))
            for f in kf.get("findings", []):
                if f["property"] == self.pid:
                    known[f["key"]] = f
        violations = []
        known_hits = []
        for r in self.rules:
            for key, msg, where in r.fails:
                if key in known:
                    known_hits.append((key, known[key], where))
                else:
                    violations.append({"rule": r.rid, "key": key, "message": msg, "where": where, "template": r.template})
        for key, f, where in known_hits:
            print("KNOWN-FINDING: property=%s %s %s" % (self.pid, key, f.get("what", "")))
        replay_paths = []
        if violations:
            rdir = os.path.join(os.environ.get("VERIF_EVIDENCE_DIR") or os.path.join(VERIF, "evidence"), "replay")
            os.makedirs(rdir, exist_ok=True)
            for i, v in enumerate(violations):
                p = os.path.join(rdir, "%s-%d.json" % (self.pid, i))
                json.dump({"property": self.pid, "tier": self.tier, **v}, open(p, "w"), indent=1)
                replay_paths.append(p)
                print("FINDING %s: %s%s" % (v["key"], v["message"], (" @ " + v["where"]) if v["where"] else ""))
                print("VIOLATION property=%s replay=%s" % (self.pid, p))
        # evidence
        instances = []
        samples = []
        for r in self.rules:
            verdict = "holds" if not r.fails else ("known-finding" if all(k in known for k, _, _ in r.fails) else "VIOLATED")
            instances.append({
                "rule": r.rid, "template": r.template, "text": r.text, "matched_sites": len(r.sites), "floor": r.floor_n,
                "verdict": verdict, "failures": [k for k, _, _ in r.fails], "exceptions": r.exceptions, "notes": r.notes,
            })
            for s in r.sites[:3]:
                samples.append({"rule": r.rid, **s})
        n_sites = sum(len(r.sites) for r in self.rules)
        cov = {
            "explanation": (
                "Static rule checking over facts extracted by a rustc_private driver (expanded-AST attributes, typed HIR, "
                "pre-borrowck MIR CFG) from /repo's current working tree. Each rule instance below is decided for all "
                "inputs/paths of the anchored functions; 'undecided' lists what is not decided."),
            "evaluations": n_sites,
            "distinct_nontrivial": len({json.dumps(s, sort_keys=True) for r in self.rules for s in r.sites}),
            "rule": "one evaluation = one program construct (call site, construction site, match arm, field, comparison, CFG path "
                    "obligation) matched by a rule instance and checked against its obligation; distinct = distinct constructs; "
                    "all are non-trivial in that each was resolved from the compiled program, none is a text match",
            "samples": samples[:40],
            "obligations": len(self.rules),
            "discharged": len([i for i in instances if i["verdict"] == "holds"]),
            "instances": instances,
            "exceptions_checked": sum(1 for r in self.rules for e in r.exceptions if e["kind"] == "checked"),
            "exceptions_reviewed": sum(1 for r in self.rules for e in r.exceptions if e["kind"] == "reviewed"),
            "known_findings_reported": [k for k, _, _ in known_hits],
            "configurations": self.configs,
            "fixtures_fired": self.fixtures,
            "trusted_base": self.trusted or ["rustc front end + MIR construction", "factdrv extractor", "frozen specification tables"],
            "undecided": self.undecided,
            "exhaustive": False,
        }
        cov.update(stats)
        cov.update(self.extra)
        ev = {
            "property_id": self.pid,
            "tier": self.tier,
            "seed": self.seed,
            "level": "other",
            "coverage": cov,
            "assumptions": self.trusted or ["rustc front end + MIR construction", "factdrv extractor"],
            "wall_s": round(time.time() - self.t0, 2),
            "violations": len(violations),
        }
        evdir = os.environ.get("VERIF_EVIDENCE_DIR") or os.path.join(VERIF, "evidence")
        os.makedirs(evdir, exist_ok=True)
        with open(os.path.join(evdir, self.pid + ".json"), "w") as fh:
            json.dump(ev, fh, indent=1)
        print("%s [%s]: %d rule instance(s), %d site(s) analysed, %d violation(s), %d known finding(s), %.1fs" % (
            self.pid, self.tier, len(self.rules), n_sites, len(violations), len(known_hits), time.time() - self.t0))
        for i in instances:
            print("  %-10s %-14s sites=%-3d floor=%-3d %s" % (i["rule"], i["verdict"], i["matched_sites"], i["floor"], i["text"][:90]))
        return 1 if violations else 0
