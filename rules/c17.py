"""C17 — IOTA DIDs are normalised, decomposable, equal iff network and tag agree."""
import re

import hir as H
import mir as M
import rulelib as L
import symrules as SR
import charpred as CP
import sym

CRATES = ["identity_iota_core", "identity_did"]
ID = "identity_iota_core::did::iota_did::IotaDID"
NN = "identity_iota_core::network::network_name::NetworkName"
DOC = "identity_iota_core::document::iota_document::IotaDocument"
DID_ACC = re.compile(r"(DID::(method|method_id)|CoreDID::(method|method_id)|CoreDocument::id)$")


def check_identity_traits(F, r3, ID, traits=("core::cmp::PartialEq", "core::cmp::Eq", "core::cmp::PartialOrd", "core::cmp::Ord", "core::hash::Hash")):
    """the identity traits of the one-field newtype ID are the derived (field-wise) ones, or hand-written ones that — on their decision
    tables — use exactly the one field and nothing else"""
    LBL = ID.rsplit("::", 1)[-1]
    FN = [f.get("name") or str(i_) for i_, f in enumerate(F.adt_fields(ID) or [])] or ["0"]
    for tr in traits:
        imps = [i for i in F.impls_of(tr, ID) if not i["trait"]["args"] or i["trait"]["args"] == [ID]]
        ok = len(imps) == 1 and imps[0]["derived"]
        tn = tr.rsplit("::", 1)[-1]
        if not ok and len(imps) == 1 and (tn == "Hash" or (tn == "PartialOrd" and len(FN) == 1)):
            # hand-written: partial_cmp = Some(self.cmp(other)) or the field's own partial_cmp; hash feeds exactly the field to the hasher
            import sibling as SB
            mname = "partial_cmp" if tn == "PartialOrd" else "hash"
            mfns = F.find(r"^<%s as %s(<.*>)?>::%s$" % (re.escape(ID), re.escape(tr), mname))
            if len(mfns) == 1 and F.hir(mfns[0]) is not None:
                mfn = mfns[0]
                S0, O0 = ("param", "s" + FN[0]), ("param", "o" + FN[0])
                sv, ov = sym.St(ID, {k_: sym.Sym(("param", "s" + k_)) for k_ in FN}), sym.St(ID, {k_: sym.Sym(("param", "o" + k_)) for k_ in FN})
                if tn == "PartialOrd":
                    ps = SB.explore(F, mfn, [sv, ov], opaque=r"Ord::cmp$|Ord>::cmp$|PartialOrd::partial_cmp$|PartialOrd(<.*>)?>::partial_cmp$", rule=r3)
                    good = bool(ps)
                    for q in ps:
                        cs = q.calls(r"::cmp$|::partial_cmp$")
                        one = len(cs) == 1 and ((SR.pure(cs[0].args[0], S0) and SR.pure(cs[0].args[1], O0)) or
                                                (sym.term(cs[0].args[0]) == sym.term(sv) and sym.term(cs[0].args[1]) == sym.term(ov)))
                        rt = sym.term(q.ret)
                        res_ok = one and (SR.pure(rt, cs[0].result.t) or (rt[:2] == ("ctor", "Some") and SR.pure(rt[2], cs[0].result.t)))
                        good = good and res_ok and not q.decisions
                else:
                    ps = SB.explore(F, mfn, [sv, sym.Sym(("param", "state"))], opaque=r"Hash::hash$|Hash>::hash$|Hasher::write\w*$|Hasher>::write\w*$", rule=r3)
                    good = bool(ps)
                    for q in ps:
                        # what is fed to the hasher: `field.hash(state)` or, for integers, `state.write_uN(field)` (what their Hash impl does)
                        hs = [h_.args[0] for h_ in q.calls(r"::hash$")] + [h_.args[1] for h_ in q.calls(r"Hasher(<.*>)?>?::write\w*$") if len(h_.args) > 1]
                        good = good and len(hs) == len(FN) and all(any(SR.pure(h_, ("param", "s" + k_)) for h_ in hs) for k_ in FN) and not q.decisions
                r3.site("impl %s for %s hand-written, %s: %s" % (tn, LBL, "the comparison of the one field (or Some(cmp))" if tn == "PartialOrd" else "hashes exactly the one field", good))
                if good:
                    continue
        if not ok and len(imps) == 1 and tn in ("PartialEq", "Ord"):
            # a hand-written impl: accepted when it is, on its decision table, the comparison of the one (normalised) field and nothing else
            import sibling as SB
            mfns = F.find(r"^<%s as %s(<.*>)?>::%s$" % (re.escape(ID), re.escape(tr), "eq" if tn == "PartialEq" else "cmp"))
            mfn = mfns[0] if len(mfns) == 1 else None
            if mfn is not None and F.hir(mfn) is not None:
                def idv(p_):
                    return sym.St(ID, {k_: sym.Sym(("param", p_ + k_)) for k_ in FN})
                pairs_ = [(k_, ("param", "s" + k_), ("param", "o" + k_)) for k_ in FN]
                before = len(r3.fails)
                if tn == "PartialEq":
                    ok = SB.check_eq(r3, mfn, SB.explore(F, mfn, [idv("s"), idv("o")], rule=r3), pairs_) and len(r3.fails) == before
                else:
                    ok = SB.check_cmp(r3, mfn, SB.explore(F, mfn, [idv("s"), idv("o")], opaque=r"Ord::cmp$|Ord>::cmp$", rule=r3), pairs_) and len(r3.fails) == before
                r3.site("impl %s for %s hand-written, compares exactly the one field: %s" % (tn, LBL, ok))
                if ok:
                    continue
        r3.site("impl %s for %s derived: %s" % (tn, LBL, ok))
        r3.require(ok, (ID, tn, "derived"), "%s for %s is neither the derived (field-wise) implementation nor a hand-written one that uses exactly its one field" % (tn, LBL))


def run(F, R, tier):
    R.undecided += ["prefix_hex decode/encode behaviour (external crate)", "str::to_lowercase on non-ASCII input (rejected later by the DID grammar)"]

    # ------------------------------------------------------------------ R1 constructor gate
    r1 = R.rule("C17-R1", "T1", "IotaDID(..) is constructed only in try_from_core after check_validity ✓ with the value passed through normalize; every &CoreDID→&IotaDID ref-cast is backed by a constructor that stores a normalised IOTA DID")
    cons = F.constructions(ID)
    for (p, bi, s) in cons:
        base = p.split("::{closure#")[0]
        r1.site("IotaDID(..) constructed in %s" % L.short(p))
        if F.derived_trait_of(base):
            continue
        r1.require(base == ID + "::try_from_core", (base, "constructs-IotaDID"), "IotaDID is constructed in %s, outside try_from_core" % L.short(base))
    fn = ID + "::try_from_core"
    h = F.hir(fn)
    if r1.anchor(h, fn):
        env = H.Env(h)
        L.require_tried_before_success(r1, F, fn, [("check_validity", ID + "::check_validity")])
        L.mir_success_dominates(r1, F, fn, ID + "::check_validity", "IotaDID::check_validity")
        for n, oc in H.exits(h):
            if oc == "Ok":
                _, inner = H.ctor_class(n)
                inner = H.strip(inner)
                okn = inner.get("k") == "call" and inner.get("ctor") and H.strip(inner["args"][0]).get("k") == "call" and H.fn_name(H.strip(inner["args"][0])) == ID + "::normalize"
                r1.site("try_from_core returns Self(normalize(did)): %s" % bool(okn), n.get("sp"))
                r1.require(okn, (fn, "normalised"), "try_from_core does not store normalize(did)")
                if okn:
                    r1.require(H.origins(H.strip(inner["args"][0])["args"][0], env) == {("param", "did")}, (fn, "normalize-arg"), "normalize is not applied to the validated DID")
        for c in H.calls(h, ID + "::check_validity"):
            r1.require(H.origins(c["args"][0], env) == {("param", "did")}, (fn, "validity-arg"), "check_validity is not applied to the DID being wrapped")
    # parse and the conversion traits go through try_from_core
    fn = ID + "::parse"
    h = F.hir(fn)
    if r1.anchor(h, fn):
        env = H.Env(h)
        fns = H.called_fns(H.root(h))
        r1.site("IotaDID::parse calls %s" % sorted(L.short(x) for x in fns if "identity" in x))
        r1.require(ID + "::try_from_core" in fns and "identity_did::did::CoreDID::parse" in fns, (fn, "via-gate"), "IotaDID::parse does not go through CoreDID::parse and try_from_core")
        r1.require(any(f.endswith("to_lowercase") for f in fns), (fn, "lowercase"), "IotaDID::parse does not lower-case its input")
        # on the decision table: whatever parse returns as Ok is try_from_core ✓ of CoreDID::parse ✓ of the *lower-cased whole input* —
        # on every accepting path (a fast path that skips the folding for "already folded" input has to prove more than a rule can see)
        tabp = SR.Table(F, fn, opaque=r"CoreDID::parse$|IotaDID::try_from_core$|to_lowercase$|to_ascii_lowercase$", rule=r1)
        INP = SR.param(sym.param_name(F, fn, 0, "input"))

        def folded(q):
            for e in q.calls(r"IotaDID::try_from_core$"):
                if not SR.pure(q.ret, e.result.t) and not SR.derives(q.ret, e.result.t):
                    continue
                for c in q.calls(r"CoreDID::parse$"):
                    if q.succeeded(c) is True and SR.pure(e.args[0], ("payload", c.result.t, "Ok", 0)):
                        lows = [l for l in q.calls(r"to_(ascii_)?lowercase$") if SR.pure(l.args[0], INP) and SR.pure(c.args[0], l.result.t)]
                        if lows:
                            return True
            return False
        SR.require_on_success(r1, tabp, "try_from_core(CoreDID::parse(lowercase(input))?)", folded, key=(fn, "lowercase", "path"),
                              what="the result is try_from_core of CoreDID::parse ✓ applied to the lower-cased input")
        r1.site("IotaDID::parse: %d accepting / %d rejecting path(s)" % (len(tabp.ok()), len(tabp.err())))
    GATE_RX = r"IotaDID::(parse|try_from_core)$|IotaDID as core::convert::TryFrom<identity_did::did::CoreDID>>::try_from$"
    for f_ in F.find(r"^<identity_iota_core::did::iota_did::IotaDID as core::(convert::TryFrom<.*>|str::traits::FromStr)>::(try_from|from_str)$"):
        # on the decision table: whatever the conversion accepts is what one of the gates (parse, try_from_core, TryFrom<CoreDID>) returned
        tabg = SR.Table(F, f_, opaque=GATE_RX + r"|CoreDID as core::convert::TryFrom<.*>>::try_from$|CoreDID::(parse|check_validity)$", rule=r1)
        oks = tabg.ok()
        ok = bool(oks) or not tabg.paths
        via = set()
        for q in oks:
            gs = [e for e in q.calls(GATE_RX) if q.succeeded(e) is not False and (SR.pure(q.ret, e.result.t) or SR.derives(q.ret, e.result.t))]
            via |= {L.short(e.fn) for e in gs}
            ok = ok and bool(gs)
        r1.site("%s → %s" % (L.short(f_), sorted(via)))
        r1.require(ok, (f_, "via-gate"), "%s does not delegate to parse/try_from_core" % L.short(f_))
    # "without path, query or fragment" is inherited from the CoreDID gate (C10-R1): re-established here on the same facts
    CDID = "identity_did::did::CoreDID"
    for (p, bi, s_) in F.constructions(CDID):
        base = p.split("::{closure#")[0]
        body = F.mir(base, follow_async=False)
        ok = False
        if body is not None and p == base:
            ok, _, _ = body.must_pass_success(CDID + "::check_validity", [bi])
        r1.site("CoreDID(..) constructed in %s under check_validity: %s" % (L.short(base), ok))
        r1.require(ok, (base, "core-gate"), "the CoreDID underlying every IotaDID is constructed in %s without check_validity: an IotaDID could carry a path, query or fragment" % L.short(base))
    import c10
    c10.check_validity_guards(F, r1)
    # ref-cast users
    for (p, bi, t) in F.callers(ID + "::from_inner_ref_unchecked"):
        r1.site("ref-cast &CoreDID → &IotaDID in %s" % L.short(p), t["sp"])
    # every construction site of IotaDocument must guarantee a normalised IOTA DID as document id
    for (p, bi, s) in F.constructions(DOC):
        base = p.split("::{closure#")[0]
        if F.derived_trait_of(base):
            continue
        hh = F.hir(base)
        r1.site("IotaDocument{..} constructed in %s" % L.short(base))
        if hh is None:
            continue
        env = H.Env(hh)
        fns = H.called_fns(H.root(hh))
        params = hh.get("params", [])
        takes_iota_did = any(b.get("ty") == ID for pp in params for b in [pp] if pp.get("k") == "bind")
        normalises = any(f in (ID + "::try_from_core", ID + "::parse", ID + "::normalize", ID + "::new", ID + "::placeholder") for f in fns) or any(re.search(r"IotaDID as core::convert::TryFrom", f) for f in fns)
        only_validates = ID + "::check_validity" in fns and not normalises
        if takes_iota_did or (normalises and not only_validates):
            continue
        if base.endswith("tests::generate_document"):
            continue
        if ID + "::check_validity" not in fns:
            r1.fail((base, "id-unchecked"),
                    "%s wraps an arbitrary CoreDocument as IotaDocument without any IOTA DID check; IotaDocument::id() ref-casts its id to &IotaDID, so an &IotaDID with a non-iota method can be obtained" % L.short(base), hh["value"]["sp"])
            continue
        r1.fail((base, "id-not-normalised"),
                "%s builds an IotaDocument whose id is only checked with check_validity (which accepts `did:iota:iota:0x…` and upper-case hex) and never normalised; IotaDocument::id() ref-casts it to &IotaDID, so doc.id() != IotaDID::parse(same string) although network and tag agree" % L.short(base),
                hh["value"]["sp"])
    r1.floor(17)

    # ------------------------------------------------------------------ R2 validity predicates and normal form
    r2 = R.rule("C17-R2", "T4+T7", "check_validity = method == \"iota\" ∧ tag is 32 hex-encoded bytes ∧ network name 1..=6 lowercase alphanumerics; normalize drops exactly the default network; components split at the first ':'")
    fn = ID + "::check_validity"
    h = F.hir(fn)
    if r2.anchor(h, fn):
        fns = H.called_fns(H.root(h))
        need = {ID + "::check_method", ID + "::check_tag", ID + "::check_network"}
        r2.site("check_validity chains %s" % sorted(L.short(x) for x in fns & need))
        r2.require(need <= fns, (fn, "conjunction"), "check_validity does not chain check_method, check_tag and check_network: missing %s" % sorted(L.short(x) for x in need - fns))
        ats = [n for n in H.walk(H.root(h)) if n.get("k") == "mcall" and n["name"] == "and_then"]
        r2.require(len(ats) == 2 and not [n for n in H.walk(H.root(h)) if n.get("k") == "mcall" and n["name"] in ("or", "or_else", "unwrap_or", "ok")], (fn, "and_then"), "the three checks are not combined with and_then (short-circuit on error)")
    consts = {}
    for cn in ("METHOD", "DEFAULT_NETWORK", "TAG_BYTES_LEN"):
        b = F.bodies.get(ID + "::" + cn)
        consts[cn] = H.literals(H.root(b["hir"])) if b and b.get("hir") else None
    r2.site("IotaDID constants %s" % consts)
    r2.require(consts["METHOD"] == ["iota"] and consts["DEFAULT_NETWORK"] == ["iota"] and consts["TAG_BYTES_LEN"] == [32], (ID, "constants"), "METHOD/DEFAULT_NETWORK/TAG_BYTES_LEN are not \"iota\"/\"iota\"/32: %s" % consts)
    cm = ID + "::check_method"
    if r2.anchor(F.hir(cm), cm):
        tab = SR.Table(F, cm, opaque=r"CoreDID::method$|DID::method$|::method$", rule=r2)
        rows = set()
        for q in tab.paths:
            eqs = [(a, c) for (a, c, _, _) in q.decisions if a[0] == "eq" and ("lit", "iota") in (a[1], a[2])]
            whole = [c for a, c in eqs if any(x[:1] == ("call",) and x[1].endswith("::method") and SR.derives(x, SR.param("did")) for x in (a[1], a[2]))]
            rows.add((tuple(whole), "Ok" if SR.is_success(q.ret) else "Err"))
            if SR.is_success(q.ret):
                r2.require(whole == [True] and len(q.decisions) == 1, (cm, "predicate"), "check_method is not `did.method() == \"iota\"` (whole-string equality): %s" % q.describe()[:160])
            else:
                r2.require(whole == [False], (cm, "predicate"), "check_method rejects for another reason than `did.method() != \"iota\"`: %s" % q.describe()[:160])
        r2.site("check_method: did.method() == METHOD → Ok: %s" % sorted(rows, key=str))
    h = F.hir(ID + "::check_tag")
    if r2.anchor(h, ID + "::check_tag"):
        env = H.Env(h)
        dec = H.calls(h, re.compile(r"^prefix_hex::decode$"))
        ok = len(dec) == 1
        if ok:
            targs = dec[0].get("targs") or []
            oo = H.origins(dec[0]["args"][0], env, accessors=DID_ACC)
            ok = any("[u8; _]" in t for t in targs) and bool(oo) and all(o[0] == "call" and o[1] == ID + "::denormalized_components" and o[-1] == "1" for o in oo)
            r2.site("check_tag: prefix_hex::decode::<%s>(denormalized_components(method_id).1)" % targs, dec[0]["sp"])
        r2.require(ok, (ID + "::check_tag", "decode"), "check_tag does not decode the tag component into a fixed [u8; TAG_BYTES_LEN]")
        # array length is TAG_BYTES_LEN: look at the local type in MIR
        b = F.mir(ID + "::check_tag")
        if b is not None:
            tys = {l["ty"] for l in b.locals if "[u8; " in l["ty"]}
            r2.require(any(re.search(r"\[u8; (32|.*TAG_BYTES_LEN)", t) for t in tys), (ID + "::check_tag", "length"), "the decoded tag is not a 32-byte array: %s" % sorted(tys))
    h = F.hir(ID + "::check_network")
    if r2.anchor(h, ID + "::check_network"):
        env = H.Env(h)
        c = H.calls(h, NN + "::validate_network_name")
        ok = len(c) == 1 and all(o[0] == "call" and o[1] == ID + "::denormalized_components" and o[-1] == "0" for o in H.origins(c[0]["args"][0], env))
        r2.site("check_network: validate_network_name(denormalized_components(method_id).0): %s" % ok)
        r2.require(ok, (ID + "::check_network", "predicate"), "check_network does not validate the network component")
    vfn = NN + "::validate_network_name"
    if r2.anchor(F.hir(vfn), vfn):
        # (1) the per-character predicate handed to `chars().all(..)` (closure or function, also inside private helpers), folded over
        #     the finite code-point domain, accepts exactly [a-z0-9]
        want = set(range(0x61, 0x7B)) | set(range(0x30, 0x3A))
        preds = []
        for _f, hr in L.with_helpers(F, vfn):
            for x in H.walk(hr):
                if x.get("k") == "mcall" and x["name"] == "all" and H.strip(x["recv"]).get("name") == "chars" and x.get("args"):
                    a0 = H.strip(x["args"][0])
                    if a0.get("k") == "closure":
                        preds.append(CP.closure_accepted_set(F, a0))
                    elif a0.get("k") == "path" and (a0.get("res") or {}).get("def"):
                        preds.append(CP.fn_accepted_set(F, a0["res"]["def"]))
                    else:
                        preds.append((None, "predicate is neither a closure nor a function path"))
        okc = len(preds) == 1 and preds[0][0] == want
        if not okc:
            for got, why in preds:
                r2.note("network-name character predicate accepts %s" % (why if got is None else sorted(chr(c) for c in (got ^ want))[:12]))
        # (2) on the decision table: accepted only with 1 <= len(name) <= 6 and the predicate holding for every character
        tabn = SR.Table(F, vfn, opaque=r"is_ascii_lowercase$|is_ascii_digit$|char::is_\w+$", rule=r2)
        NAME = SR.param("name")

        def is_len(t_):
            return isinstance(t_, tuple) and t_[:1] == ("call",) and re.sub(r"<[^<>]*>", "", t_[1]).endswith("::len") and len(t_[2]) == 1 and SR.pure(t_[2][0], NAME)
        okl = bool(tabn.ok())
        saw_reject_char = False
        for q in tabn.paths:
            lo, hi = SR.int_bounds(q, is_len)
            ne = [c for (a, c, _, _) in q.decisions if a[0] == "nonempty" and a[1] == NAME]
            if ne == [True]:
                lo = max(lo or 0, 1)
            if ne == [False]:
                hi = 0
            if SR.is_success(q.ret) and not SR.is_failure(q.ret):
                if not r2.require((lo, hi) == (1, 6), (vfn, "predicate"), "a network name is accepted with its length only known to be in [%s, %s], not 1..=6 — path: %s" % (lo, hi, q.describe()[:160])):
                    okl = False
                # an accepting path that looked at a character found the predicate true for it
                for (a, c, _, _) in q.decisions:
                    if a[0] == "nonempty" and isinstance(a[1], tuple) and a[1][:1] == ("call",) and a[1][1].endswith("chars") and c:
                        pass
            else:
                if (lo, hi) == (1, 6) or (lo is not None and lo >= 1 and hi is not None and hi <= 6):
                    saw_reject_char = True     # rejected although the length is fine: because of a character
        r2.require(saw_reject_char or not tabn.paths, (vfn, "predicate"), "no path rejects a name of valid length for its characters")
        r2.site("validate_network_name: 1 <= len <= 6 ∧ every char ∈ [a-z0-9]: length %s, charset %s" % (okl, okc))
        r2.require(okc, (vfn, "predicate"), "network names are not restricted to 1..=6 lowercase ASCII alphanumerics (character predicate)")
    # normalize
    nf = ID + "::normalize"
    if r2.anchor(F.hir(nf), nf):
        tab = SR.Table(F, nf, opaque=r"CoreDID::set_method_id$|denormalized_components$|::method_id$", rule=r2)
        ok = bool(tab.paths)
        n_set = n_keep = 0
        for q in tab.paths:
            if isinstance(q.ret, sym.V) and q.ret.name == "Panic":
                continue   # the `expect` on set_method_id's result: discharged by C05 (RULE C17-R1/R2)
            sets = [e for e in q.calls(r"CoreDID::set_method_id$")]
            comps = [e for e in q.calls(r"denormalized_components$")]
            if not comps:
                ok = False
                continue
            c0 = ("field", comps[0].result.t, "0")
            c1 = ("field", comps[0].result.t, "1")
            net_is_default = None
            for (a, c, _, _) in q.decisions:
                if a[0] == "eq" and ("lit", "iota") in (a[1], a[2]) and c0 in (a[1], a[2]):
                    net_is_default = c
            if sets:
                n_set += 1
                ok = ok and net_is_default is True and sym.term(sets[0].args[1]) == c1 and sym.term(sets[0].args[0]) == SR.param("did") and len(sets) == 1
            else:
                n_keep += 1
                ok = ok and sym.term(q.ret) == SR.param("did") and net_is_default is not True
        r2.site("normalize: keep unless network == DEFAULT_NETWORK (then method id := tag): %s (%d rewriting / %d keeping path(s))" % (ok, n_set, n_keep))
        r2.require(ok and n_set >= 1 and n_keep >= 1, (nf, "shape"), "normalize does not drop exactly the default network segment (whole-string equality with \"iota\", new method id = the tag component)")
    dfn = ID + "::denormalized_components"
    if r2.anchor(F.hir(dfn), dfn):
        # a pure composition of std string primitives: fold it on the input shapes that distinguish "split at the first ':'" from
        # every neighbouring behaviour (last ':', no split, keeping the ':'), with DEFAULT_NETWORK for inputs without ':'
        ev_ = sym.Evaluator(F)
        cases = {"net:tag": ("net", "tag"), "a:b:c": ("a", "b:c"), "tag": ("iota", "tag"), ":x": ("", "x"), "x:": ("x", ""), "": ("iota", "")}
        got = {}
        for inp, want in cases.items():
            try:
                ps = ev_.explore(dfn, args=[inp])
                got[inp] = ps[0].ret if len(ps) == 1 and ps[0].complete else ("?", ps[0].note if ps else None)
            except (sym.Abort, sym.TooManyPaths) as e:
                got[inp] = ("?", str(e))
        ok = all(got[k_] == v_ for k_, v_ in cases.items())
        r2.site("denormalized_components folds to %s" % {k_: got[k_] for k_ in cases})
        r2.require(ok, ("denormalized_components", "shape"), "components are not split at the first ':' with DEFAULT_NETWORK as the implicit network: %s" % {k_: got[k_] for k_ in cases if got[k_] != cases[k_]})
    fn = ID + "::new"
    if r2.anchor(F.hir(fn), fn):
        # by abstract evaluation (helpers inlined, constants folded into the template): the string parsed is
        # "did:iota:<network_name>:<prefix_hex(bytes)>" and the result is IotaDID::parse(that string)
        import sibling as SB
        tab = SR.Table(F, fn, opaque=r"prefix_hex::encode$|IotaDID::parse$|format$|fmt::format$", rule=r2)
        ok = bool(tab.paths)
        for q in tab.paths:
            pat, argv = SB.render_pattern(q)
            enc = q.calls(r"prefix_hex::encode$")
            good = (pat == "did:iota:{}:{}" and len(argv) == 2 and SR.pure(argv[0], SR.param("network_name")) and len(enc) == 1 and SR.pure(argv[1], enc[0].result.t))
            if not r2.require(good, (fn, "format"), "IotaDID::new does not build did:iota:<network>:<hex tag>: formats %r over %s" % (pat, [sym.fmt(a) for a in argv])):
                ok = False
                continue
            r2.require(SR.pure(enc[0].args[0], SR.param("bytes")), (fn, "bytes"), "the tag is not the hex encoding of the given bytes")
            ps = q.calls(r"IotaDID::parse$")
            if isinstance(q.ret, sym.V) and q.ret.name == "Panic":
                continue       # the `expect` on the parse result: C05's business (class RULE ⇐ this rule)
            r2.require(len(ps) == 1 and SR.derives(q.ret, ps[0].result.t), (fn, "parsed"), "IotaDID::new does not return the parsed (validated, normalised) DID")
        r2.site("IotaDID::new formats \"did:iota:{}:{}\" over (network_name, prefix_hex(bytes)) and parses it: %s" % ok)
    # the accessors decompose what check_validity validated: network_str / tag_str are components 0 / 1 of denormalized_components(method_id)
    # on every path — no shortcut of their own (a DID on network `0xabc` must not read back as the default network)
    for acc, comp in (("network_str", "0"), ("tag_str", "1")):
        afn = ID + "::" + acc
        if not r2.anchor(F.hir(afn), afn):
            continue
        taba = SR.Table(F, afn, opaque=r"denormalized_components$|::method_id$", rule=r2)
        oka = bool(taba.paths)
        for q in taba.paths:
            rt = sym.term(q.ret)
            good = (isinstance(rt, tuple) and rt[:1] == ("field",) and rt[2] == comp and isinstance(rt[1], tuple) and rt[1][:1] == ("call",) and rt[1][1].endswith("denormalized_components")
                    and len(rt[1][2]) == 1 and isinstance(rt[1][2][0], tuple) and rt[1][2][0][:1] == ("call",) and rt[1][2][0][1].endswith("::method_id") and rt[1][2][0][2] == (SR.SELF,))
            if not r2.require(good, (afn, "component"), "IotaDID::%s does not return component %s of denormalized_components(self.method_id()) on every path: %s — path: %s" % (acc, comp, sym.fmt(rt)[:100], q.describe()[:120])):
                oka = False
        r2.site("IotaDID::%s = denormalized_components(method_id).%s on %d path(s): %s" % (acc, comp, len(taba.paths), oka))
    r2.floor(11)

    # ------------------------------------------------------------------ R3 equality on the normalised field
    r3 = R.rule("C17-R3", "T13", "Eq/Ord/Hash are derived on the single normalised CoreDID field; the field is private")
    fs = F.adt_fields(ID)
    if r3.anchor(fs, ID):
        r3.require(len(fs) == 1 and fs[0]["ty"].endswith("CoreDID") and fs[0]["vis"] != "pub", (ID, "field"), "IotaDID is not a private newtype over CoreDID: %s" % fs)
    check_identity_traits(F, r3, ID)
    a = F.ast_item(ID)
    if r3.anchor(a, ID + " (ast)"):
        attrs = " ".join(a["attrs"])
        r3.site("IotaDID attrs %s" % [x for x in a["attrs"] if "serde" in x or "repr" in x])
        r3.require("try_from" in attrs, (ID, "serde-try_from"), "IotaDID is deserialised without the validating/normalising conversion")
    r3.floor(6)
