"""C08 — Every JWS the library produces decodes and verifies to what was signed."""
import re

import hir as H
import mir as M
import rulelib as L
import charpred as CP
import spec_tables as S
import c01
import c03

CRATES = ["identity_jose", "identity_storage", "identity_document", "identity_credential", "identity_core"]
ENC = "identity_jose::jws::encoding::encoder"
UTL = "identity_jose::jws::encoding::utils"
SER = "identity_jose::jwu::serde"
DEC = "identity_jose::jws::decoder"
CS = "identity_jose::jws::charset::CharSet"
EXT = "identity_storage::storage::jwk_document_ext::JwkDocumentExt"
CORE = "identity_document::document::core_document::CoreDocument"

SEE = re.compile(r"(into_non_detached|MaybeEncodedPayload::as_bytes|::into|Into::into|::as_bytes|::as_deref|::clone|::to_string|ToString::to_string|::to_owned)$")


def decode_fmt(bs):
    """Decode the compact template of `fmt::Arguments::new`: [..] of ('arg',) / ('lit', str)"""
    out = []
    i = 0
    while i < len(bs):
        b = bs[i]
        if b == 0:
            break
        if b >= 0x80:
            out.append(("arg",))
            i += 1
        else:
            out.append(("lit", bytes(bs[i + 1:i + 1 + b]).decode("utf-8", "replace")))
            i += 1 + b
    return out


def format_calls(h, env, accessors=None):
    """[(template, [origin sets of the arguments in order], node)] for every format!/format_args! under h"""
    out = []
    for n in H.walk(H.root(h) if "value" in h else h):
        if n.get("k") == "call" and (n.get("fn") or "").endswith("fmt::Arguments::new"):
            lit = H.strip(n["args"][0])
            bs = lit.get("v", {}).get("bytes") if lit.get("k") == "lit" else None
            if bs is None:
                continue
            argl = H.strip(n["args"][1])
            # args local → array of Argument::new_*(&args.N) → tuple `args` elements
            arr = None
            name = H.local_name(argl)
            bid = argl.get("res", {}).get("id") if argl.get("k") == "path" else None
            ds = env.defs.get(bid, [])
            origins = []
            if ds:
                arr = H.strip(ds[0][0])
                if arr.get("k") == "array":
                    for el in arr["es"]:
                        el = H.strip(el)
                        if el.get("k") == "call" and el.get("args"):
                            origins.append(H.origins(el["args"][0], env, extra=SEE, accessors=accessors))
            out.append((decode_fmt(bs), origins, n))
    return out


def char_ranges(pat):
    """Set of code points matched by a char pattern (or-pattern of literals and ranges); None when not extractable."""
    k = pat.get("k")
    if k == "or":
        out = set()
        for a in pat["alts"]:
            r = char_ranges(a)
            if r is None:
                return None
            out |= r
        return out
    if k == "lit" and "int" in pat.get("v", {}):
        return {pat["v"]["int"]}
    if k == "range":
        lo, hi = pat.get("lo"), pat.get("hi")
        if not lo or not hi or "int" not in lo.get("v", {}) or "int" not in hi.get("v", {}):
            return None
        return set(range(lo["v"]["int"], hi["v"]["int"] + (1 if pat.get("inclusive") else 0)))
    return None


def run(F, R, tier):
    R.undecided += ["that a token never verifies under another method's key (cryptography)", "JSON escaping of payloads in the flattened/general form (serde_json)",
                    "the decoder side of the round trip is C01/C11; this module checks the producing side and the shared constants"]

    # ------------------------------------------------------------------ R1 one formula
    r1 = R.rule("C08-R1", "T1", "every value stored in a `signing_input` field is the result of jwu::create_message (encoders and decoder share one formula)")
    n = 0
    for ty, field in ((ENC + "::CompactJwsEncoder", "signing_input"), (UTL + "::SigningData", "signing_input"), (DEC + "::JwsValidationItem", "signing_input")):
        for p, bs in F.bodies_all.items():
            for b in bs:
                h = b.get("hir")
                if not h or b["crate"] != "identity_jose":
                    continue
                lits = [s for s in H.struct_lits(h) if s.get("ty") == ty]
                if not lits:
                    continue
                env = H.Env(h)
                for s in lits:
                    for f in s["fields"]:
                        if f["name"] == field:
                            oo = H.origins(f["e"], env, extra=re.compile(r"(::into|Into::into)$"))
                            n += 1
                            r1.site("%s{signing_input} in %s ← %s" % (L.short(ty), L.short(p), sorted(map(str, oo))), s["sp"])
                            r1.require(oo == {("call", SER + "::create_message")}, (p, "signing_input", ty.rsplit("::", 1)[-1]), "signing_input of %s is not the result of create_message: %s" % (L.short(ty), sorted(map(str, oo))))
        for (p, bi, kind, d) in F.field_writes(ty, field):
            r1.fail((p, "writes-signing_input"), "%s.signing_input is written after construction in %s" % (L.short(ty), L.short(p)))
    r1.floor(3)

    # ------------------------------------------------------------------ R2 what is signed is what is emitted
    r2 = R.rule("C08-R2", "T3", "the emitted protected segment and payload are the operands of create_message; b64 defaults agree between encoder and decoder")
    fn = ENC + "::CompactJwsEncoder::new_with_options"
    h = F.hir(fn)
    if r2.anchor(h, fn):
        env = H.Env(h)
        cm = H.calls(h, SER + "::create_message")
        lits = [s for s in H.struct_lits(h) if s.get("ty") == ENC + "::CompactJwsEncoder"]
        if r2.require(len(cm) == 1 and len(lits) == 1, (fn, "shape"), "expected one create_message call and one encoder literal"):
            a0 = H.origins(cm[0]["args"][0], env, extra=SEE)
            a1 = H.origins(cm[0]["args"][1], env, extra=SEE)
            fl = {f["name"]: H.origins(f["e"], env, extra=SEE) for f in lits[0]["fields"]}
            r2.site("compact: signed header ← %s, emitted header ← %s" % (sorted(map(str, a0)), sorted(map(str, fl.get("protected_header", [])))), cm[0]["sp"])
            r2.site("compact: signed payload ← %s, emitted payload ← %s" % (sorted(map(str, a1)), sorted(map(str, fl.get("processed_payload", [])))), cm[0]["sp"])
            r2.require(a0 == {("call", "identity_jose::jwu::base64::encode_b64_json")} and fl.get("protected_header") == a0, (fn, "header-identity"), "the protected segment placed in the token is not the one that was signed")
            r2.require(a1 == {("call", UTL + "::MaybeEncodedPayload::encode_if_b64")}, (fn, "payload-signed"), "the payload signed is not encode_if_b64(payload, protected header): %s" % sorted(map(str, a1)))
            emitted = {o for o in fl.get("processed_payload", set()) if o != ("def", "core::option::Option::None::{ctor}")}
            r2.require(emitted == a1, (fn, "payload-identity"), "the payload placed in the token is not the one that was signed: %s" % sorted(map(str, emitted)))
        for c in H.calls(h, "identity_jose::jwu::base64::encode_b64_json"):
            r2.require(H.origins(c["args"][0], env) == {("param", "protected_header")}, (fn, "header-arg"), "the encoded header is not the protected_header parameter")
        for c in H.calls(h, UTL + "::MaybeEncodedPayload::encode_if_b64"):
            r2.require(H.origins(c["args"][0], env) == {("param", "payload")} and H.origins(c["args"][1], env) == {("param", "protected_header")}, (fn, "encode_if_b64-args"), "encode_if_b64 is not applied to (payload, Some(protected_header))")
    # into_jws templates
    fn = ENC + "::CompactJwsEncoder::into_jws"
    h = F.hir(fn)
    if r2.anchor(h, fn):
        env = H.Env(h)
        fc = format_calls(h, env)
        got = []
        for tpl, oo, node in fc:
            shape = "".join("{}" if t[0] == "arg" else t[1] for t in tpl)
            args = [sorted(map(str, o)) for o in oo]
            got.append((shape, args))
            r2.site("into_jws template %r args %s" % (shape, args), node["sp"])
        want_att = ("{}.{}.{}", [["('param', 'self', 'protected_header')"], ["('param', 'self', 'processed_payload', 'Some', '0')"], ["('call', 'identity_jose::jwu::base64::encode_b64')"]])
        want_det = ("{}..{}", [["('param', 'self', 'protected_header')"], ["('call', 'identity_jose::jwu::base64::encode_b64')"]])
        r2.require(want_att in got, (fn, "attached-template"), "attached compact form is not `{protected}.{payload}.{b64(signature)}`: %s" % got)
        r2.require(want_det in got, (fn, "detached-template"), "detached compact form is not `{protected}..{b64(signature)}`: %s" % got)
        for c in H.calls(h, "identity_jose::jwu::base64::encode_b64"):
            r2.require(H.origins(c["args"][0], env) == {("param", "signature")}, (fn, "signature-arg"), "the emitted signature is not b64(signature parameter)")
    # SigningData::new and into_signature
    fn = UTL + "::SigningData::new"
    h = F.hir(fn)
    if r2.anchor(h, fn):
        env = H.Env(h)
        cm = H.calls(h, SER + "::create_message")
        lits = [s for s in H.struct_lits(h) if s.get("ty") == UTL + "::SigningData"]
        if r2.require(len(cm) == 1 and len(lits) == 1, (fn, "shape"), "expected one create_message call and one SigningData literal"):
            a0 = H.origins(cm[0]["args"][0], env, extra=SEE)
            a1 = H.origins(cm[0]["args"][1], env, extra=SEE)
            fl = {f["name"]: H.origins(f["e"], env, extra=SEE) for f in lits[0]["fields"]}
            r2.site("json: signed header ← %s, stored header ← %s; signed payload ← %s" % (sorted(map(str, a0)), sorted(map(str, fl.get("protected_header", []))), sorted(map(str, a1))), cm[0]["sp"])
            r2.require(a0 == fl.get("protected_header") and a0 == {("call", "identity_jose::jwu::base64::encode_b64_json")}, (fn, "header-identity"), "SigningData stores a protected header different from the one signed")
            r2.require(a1 == {("param", "processed_payload")}, (fn, "payload"), "SigningData signs something else than the processed payload")
    fn = UTL + "::SigningData::into_signature"
    h = F.hir(fn)
    if r2.anchor(h, fn):
        env = H.Env(h)
        for s in H.struct_lits(h):
            fl = {f["name"]: H.origins(f["e"], env, extra=re.compile(r"encode_b64$")) for f in s["fields"]}
            r2.site("JwsSignature{protected ← %s, header ← %s, signature ← %s}" % tuple(sorted(map(str, fl.get(k, []))) for k in ("protected", "header", "signature")), s["sp"])
            r2.require(fl.get("protected") == {("param", "self", "protected_header")}, (fn, "protected"), "the emitted protected member is not the signed one")
            r2.require(fl.get("header") == {("param", "unprotected_header")}, (fn, "header"), "the emitted unprotected header is not the recipient's")
            r2.require(fl.get("signature") == {("param", "signature")}, (fn, "signature"), "the emitted signature is not b64(signature parameter)")
    for fn, rec in ((ENC + "::FlattenedJwsEncoder::new", "recipient"), (ENC + "::GeneralJwsEncoder::new", "first_recipient")):
        h = F.hir(fn)
        if not r2.anchor(h, fn):
            continue
        env = H.Env(h)
        for c in H.calls(h, UTL + "::SigningData::new"):
            o0 = H.origins(c["args"][0], env, extra=SEE)
            o1 = H.origins(c["args"][1], env)
            r2.site("%s: SigningData::new(payload ← %s, header ← %s)" % (L.short(fn), sorted(map(str, o0)), sorted(map(str, o1))), c["sp"])
            r2.require(o0 == {("call", UTL + "::MaybeEncodedPayload::encode_if_b64")}, (fn, "signed-payload"), "the payload signed is not encode_if_b64(payload, recipient.protected)")
            r2.require(o1 == {("param", rec, "protected")}, (fn, "signed-header"), "the header signed is not the recipient's protected header")
        for c in H.calls(h, UTL + "::MaybeEncodedPayload::encode_if_b64"):
            r2.require(H.origins(c["args"][0], env) == {("param", "payload")} and H.origins(c["args"][1], env) == {("param", rec, "protected")}, (fn, "encode_if_b64-args"), "encode_if_b64 is not applied to (payload, recipient.protected)")
        lits = [s for s in H.struct_lits(h) if "JwsEncoder" in (s.get("ty") or "")]
        for s in lits:
            for f in s["fields"]:
                if f["name"] in ("processed_payload", "partially_processed_payload"):
                    oo = {o for o in H.origins(f["e"], env, extra=SEE) if o != ("def", "core::option::Option::None::{ctor}")}
                    r2.require(oo == {("call", UTL + "::MaybeEncodedPayload::encode_if_b64")}, (fn, "emitted-payload"), "the payload kept for emission is not the one that was signed: %s" % sorted(map(str, oo)))
    # b64 defaults: encoder (extract_b64 → DEFAULT_B64) and decoder claims rule agree
    enc_d = c01.extract_b64_default(F)
    dec_d = c01.decoder_b64_default(F)
    eh = F.hir(UTL + "::MaybeEncodedPayload::encode_if_b64")
    uses_extract = eh is not None and SER + "::extract_b64" in H.called_fns(H.root(eh))
    r2.site("b64 default: encoder extract_b64 → %s (used by encode_if_b64: %s), decoder claims rule → %s" % (enc_d, uses_extract, dec_d))
    r2.require(enc_d is True and dec_d is True and uses_extract, ("b64-default",), "encoder default (%s) and decoder default (%s) for an absent b64 must both be true" % (enc_d, dec_d))
    if eh:
        # then(encoded) / unwrap_or(not encoded): true → Encoded(encode_b64(payload))
        ok = False
        for n_ in H.walk(H.root(eh)):
            if n_.get("k") == "mcall" and n_["name"] in ("then", "then_some"):
                cl = H.strip(n_["args"][0])
                inner = cl.get("body") if cl.get("k") == "closure" else cl
                if H.ctor_class(inner)[0] == "Encoded" and "identity_jose::jwu::base64::encode_b64" in H.called_fns(inner):
                    ok = True
        r2.require(ok, (UTL + "::MaybeEncodedPayload::encode_if_b64", "polarity"), "encode_if_b64 does not base64url-encode exactly when b64 is true")
    r2.floor(9)

    # ------------------------------------------------------------------ R3 charset
    r3 = R.rule("C08-R3", "T7", "CharSet::Default = %x20-2D / %x2F-7E, UrlSafe = unreserved characters; '.' is rejected for every unencoded attached compact payload")
    vfn = CS + "::validate"
    vh = F.hir(vfn)
    if r3.anchor(vh, vfn):
        env = H.Env(vh)
        gs = L.block_guards(H.root(vh))
        dot = False
        inner_called = False
        for cond, oc, node in gs:
            inner, neg = H.negated(cond)
            inner = H.strip(inner)
            if inner.get("k") == "mcall" and inner["name"] == "contains" and not neg and oc.startswith("Err("):
                lits = H.literals(inner)
                if lits == ["."] or lits == [46]:
                    dot = True
            if neg and inner.get("k") == "mcall" and (H.fn_name(inner) or "").endswith("CharSet::__validate") and oc.startswith("Err("):
                inner_called = True
        r3.site("validate: explicit '.' rejection: %s; set membership enforced: %s" % (dot, inner_called), vh["value"]["sp"])
        r3.require(inner_called, (vfn, "set-check"), "validate() does not reject payloads failing the character-set predicate")
        ih = F.hir(CS + "::__validate")
        sets = {}
        whys = {}
        if r3.anchor(ih, "CharSet::__validate"):
            m = H.find_first(ih, lambda n: n.get("k") == "match" and n.get("src") == "normal")
            if r3.require(m is not None, (CS + "::__validate", "table"), "character-set table not found"):
                for arm in m["arms"]:
                    name = H.pat_str(arm["pat"])
                    # `data.chars().all(|ch| <predicate>)`: fold the predicate over the finite code-point domain
                    body = H.strip(arm["body"])
                    cps, why = None, "the arm is not `data.chars().all(|ch| ..)`"
                    if body.get("k") == "mcall" and body["name"] == "all" and H.strip(body["recv"]).get("name") == "chars":
                        cl = H.strip(body["args"][0])
                        if cl.get("k") == "closure":
                            cps, why = CP.closure_accepted_set(F, cl)
                    sets[name] = cps
                    whys[name] = why
                    r3.site("CharSet::%s accepts %s code points" % (name, len(cps) if cps is not None else "?"), arm["body"].get("sp"))
        want = {"Default": S.CHARSET_DEFAULT, "UrlSafe": S.CHARSET_URLSAFE}
        for name, w in want.items():
            got = sets.get(name)
            if not r3.require(got is not None, (CS, name, "not-extractable"), "the %s character-set predicate cannot be folded (%s); cannot compare it with the specification" % (name, whys.get(name))):
                continue
            extra = sorted(got - w)
            missing = sorted(w - got)
            r3.require(not extra, (CS, name, "extra"), "CharSet::%s accepts characters outside the specified set: %s" % (name, [chr(c) for c in extra][:10]))
            r3.require(not missing, (CS, name, "missing"), "CharSet::%s rejects specified characters: %s" % (name, [chr(c) for c in missing][:10]))
            r3.require(dot or 0x2E not in got, (CS, name, "dot"), "'.' is accepted in an unencoded compact payload under CharSet::%s: the token cannot be split back into three segments" % name)
        r3.require(dot or all(s is not None and 0x2E not in s for s in sets.values()), (vfn, "dot"), "'.' is not rejected for unencoded attached compact payloads")
    # the validator is what into_non_detached applies for NonDetached compact tokens
    fn = ENC + "::CompactJwsEncoder::new_with_options"
    h = F.hir(fn)
    if h:
        called = H.called_fns(H.root(h))
        r3.require(CS + "::validate" in called and UTL + "::MaybeEncodedPayload::into_non_detached" in called, (fn, "charset-applied"), "the compact encoder does not validate unencoded attached payloads with CharSet::validate")
        r3.site("compact encoder: into_non_detached(|input| charset_requirements.validate(input))")
    ih = F.hir(UTL + "::MaybeEncodedPayload::into_non_detached")
    if r3.anchor(ih, "into_non_detached"):
        m = H.find_first(ih, lambda n: n.get("k") == "match" and n.get("src") == "normal")
        ok = False
        if m:
            for arm in m["arms"]:
                if H.pat_str(arm["pat"]).startswith("NotEncoded"):
                    tried = H.tried_calls([arm["body"]])
                    ok = any(c.get("k") == "call" and H.local_name(c.get("callee")) == "not_encoded_validator" for c in tried) or any("not_encoded_validator" in str(c.get("callee", {}).get("res", {})) for c in H.walk(arm["body"]) if c.get("k") == "call")
        r3.require(ok, (UTL + "::MaybeEncodedPayload::into_non_detached", "validator"), "a NotEncoded payload is not passed through the format validator before being emitted")
    r3.floor(4)

    # ------------------------------------------------------------------ R4 header assembly in create_jws
    r4 = R.rule("C08-R4", "T2+T3", "create_jws: alg from the method's JWK; kid = options.kid else method id; typ default JWT; b64=false ⇒ crit=[b64]; options copied; key id of the same method; signs the encoder's signing input; returns into_jws(signature)")
    fns = F.find(r"^<identity_document::document::core_document::CoreDocument as identity_storage::storage::jwk_document_ext::JwkDocumentExt>::create_jws$")
    if r4.require(bool(fns), ("create_jws", "ANCHOR"), "CoreDocument::create_jws not found"):
        fn = fns[0]
        code = F.code_path(fn)
        hb = F.bodies.get(fn)
        h = hb.get("hir")
        env = H.Env(h)
        JH = "identity_jose::jws::header::JwsHeader"
        JT = "identity_jose::jwt::header::JwtHeader"
        setters = {}
        tree = H.Tree(h)
        for n_ in H.walk(H.root(h)):
            if n_.get("k") == "mcall" and n_["name"].startswith("set_") and (H.fn_name(n_) or "").startswith((JH, JT)):
                conds = [(c[0], c[2], c[1]) for c in tree.path_conditions(n_) if c[0] == "if" and not c[1].get("exp")]
                setters.setdefault(n_["name"], []).append((n_, conds))
        r4.site("header setters used: %s" % sorted(setters), h["value"]["sp"])

        def arg_o(n_):
            return H.origins(n_["args"][0], env, extra=re.compile(r"(::clone|::to_string|ToString::to_string|::parse|::unwrap_or|DIDUrl::to_string)$"), accessors=re.compile(r"(Jwk::alg|VerificationMethod::id|VerificationMethod::data)$"))
        # alg
        sa = setters.get("set_alg", [])
        if r4.require(len(sa) == 1 and not sa[0][1], (fn, "set_alg"), "alg is not set exactly once, unconditionally"):
            oo = arg_o(sa[0][0])
            r4.site("alg ← %s" % sorted(map(str, oo)), sa[0][0]["sp"])
            r4.require(bool(oo) and all(o[0] == "call" and o[1].endswith("resolve_method") for o in oo) or any("alg" in o for o in oo), (fn, "alg-source"), "alg does not derive from the resolved method's JWK: %s" % sorted(map(str, oo)))
        # kid
        sk = setters.get("set_kid", [])
        if r4.require(len(sk) == 2, (fn, "set_kid"), "kid must be set on both branches (configured kid / method id), found %d" % len(sk)):
            kinds = set()
            for n_, conds in sk:
                oo = arg_o(n_)
                polar = [p for (_, p, c) in conds if "kid" in str(sorted(H.origins(H.strip(c).get("init") or c, env)))]
                if oo and all(o[:3] == ("param", "options", "kid") for o in oo) and polar == [True]:
                    kinds.add("configured")
                elif oo and all(o[0] == "call" and o[1].endswith("resolve_method") for o in oo) and polar == [False]:
                    kinds.add("method-id")
                r4.site("kid ← %s (options.kid present: %s)" % (sorted(map(str, oo)), polar), n_["sp"])
            r4.require(kinds == {"configured", "method-id"}, (fn, "kid-source"), "kid is not `options.kid` when configured and the method id otherwise")
        # typ
        st = setters.get("set_typ", [])
        if r4.require(len(st) == 2, (fn, "set_typ"), "typ must be set on both branches, found %d" % len(st)):
            vals = []
            for n_, conds in st:
                lits = H.literals(n_["args"][0])
                oo = arg_o(n_)
                vals.append(lits[0] if lits else sorted(map(str, oo)))
            r4.site("typ ← %s" % vals)
            r4.require("JWT" in vals and any(isinstance(v, list) and v and "options" in v[0] and "typ" in v[0] for v in vals), (fn, "typ-default"), "typ is not options.typ else \"JWT\": %s" % vals)
        # b64 / crit
        sb = setters.get("set_b64", [])
        sc = setters.get("set_crit", [])
        if r4.require(len(sb) == 1 and len(sc) == 1, (fn, "b64-crit-pair"), "set_b64 and set_crit must appear exactly once each (found %d / %d)" % (len(sb), len(sc))):
            pb = tree.parent.get(id(sb[0][0]))
            same_block = [c for c in sb[0][1]] == [c for c in sc[0][1]] and len(sb[0][1]) >= 1
            lits = H.literals(sc[0][0]["args"][0])
            r4.site("b64=false ⇒ set_b64 and set_crit(%s) under the same conditions: %s" % (lits, same_block), sb[0][0]["sp"])
            r4.require(same_block, (fn, "crit-with-b64"), "set_crit is not executed under exactly the conditions under which set_b64 is")
            r4.require(lits == ["b64"], (fn, "crit-value"), "crit is not [\"b64\"]: %s" % lits)
            # the guard is `!b64`
            negs = []
            for (_, pol, c) in sb[0][1]:
                inner, neg = H.negated(c)
                if H.local_name(inner) == "b64":
                    negs.append((neg, pol))
            r4.require((True, True) in negs, (fn, "b64-only-false"), "b64/crit are not set exactly when options.b64 == Some(false)")
        for name, opt in (("set_nonce", "nonce"), ("set_url", "url"), ("set_cty", "cty"), ("set_custom", "custom_header_parameters")):
            ss = setters.get(name, [])
            if r4.require(len(ss) == 1, (fn, name), "%s not found exactly once" % name):
                oo = arg_o(ss[0][0])
                r4.site("%s ← %s" % (name, sorted(map(str, oo))), ss[0][0]["sp"])
                r4.require(bool(oo) and all(o[:3] == ("param", "options", opt) for o in oo), (fn, name, "source"), "%s is not copied from options.%s" % (name, opt))
        sj = setters.get("set_jwk", [])
        r4.require(len(sj) == 1 and any(H.origins(c, env) == {("param", "options", "attach_jwk")} for (_, pol, c) in sj[0][1] if pol is True), (fn, "set_jwk"), "jwk is not attached exactly under options.attach_jwk")
        # key id from the digest of the same method; sign(key_id, signing_input, jwk)
        md = H.calls(h, re.compile(r"MethodDigest::new$"))
        r4.require(len(md) == 1 and all(o[0] == "call" and o[1].endswith("resolve_method") for o in H.origins(md[0]["args"][0], env)), (fn, "digest-method"), "the key id is not looked up from the digest of the resolved method")
        gk = H.calls(h, re.compile(r"KeyIdStorage::get_key_id$"))
        if r4.require(len(gk) == 1, (fn, "get_key_id"), "get_key_id not called exactly once"):
            oo = H.origins(H.call_args(gk[0])[1], env)
            r4.require(oo == {("call", "identity_storage::key_id_storage::method_digest::MethodDigest::new")}, (fn, "get_key_id-arg"), "get_key_id is not given the method digest")
        sg = H.calls(h, re.compile(r"JwkStorage::sign$"))
        if r4.require(len(sg) == 1, (fn, "sign"), "sign not called exactly once"):
            a = H.call_args(sg[0])
            o = [H.origins(x, env, accessors=re.compile(r"CompactJwsEncoder::signing_input$")) for x in a]
            r4.site("sign(key_id ← %s, data ← %s, jwk ← %s)" % (sorted(map(str, o[1])), sorted(map(str, o[2])), sorted(map(str, o[3]))[:2]), sg[0]["sp"])
            r4.require(all(x[0] == "call" and x[1].endswith("get_key_id") for x in o[1]) and o[1], (fn, "sign-key"), "the signing key id is not the one recorded for this method")
            r4.require(o[2] == {("call", ENC + "::CompactJwsEncoder::new_with_options", "signing_input")}, (fn, "sign-data"), "the data signed is not jws_encoder.signing_input(): %s" % sorted(map(str, o[2])))
        enc = H.calls(h, ENC + "::CompactJwsEncoder::new_with_options")
        if r4.require(len(enc) == 1, (fn, "encoder"), "encoder not constructed exactly once"):
            o = [H.origins(x, env) for x in enc[0]["args"]]
            r4.require(o[0] == {("param", "payload")}, (fn, "encoder-payload"), "the encoder is not given the payload parameter")
            r4.require(H.local_name(enc[0]["args"][1]) == "header", (fn, "encoder-header"), "the encoder is not given the assembled header")
        # detached option → Detached
        eo = [n_ for n_ in H.walk(H.root(h)) if n_.get("k") == "let" and any(b[0] == "encoding_options" for b in H.pat_bindings(n_["pat"]))]
        if r4.require(len(eo) == 1, (fn, "encoding_options"), "encoding_options definition not found"):
            iff = H.strip(eo[0]["init"])
            ok = False
            if iff.get("k") == "if":
                inner, neg = H.negated(iff["cond"])
                oo = H.origins(inner, env)
                t1 = H.variant_name((H.strip(iff["then"]).get("expr") or H.strip(iff["then"])).get("res", {})) if True else None
                names = [H.variant_name(x.get("res", {})) for x in H.walk(iff["then"]) if x.get("k") in ("struct", "path")]
                names_e = [H.variant_name(x.get("res", {})) for x in H.walk(iff["else"]) if x.get("k") in ("struct", "path")]
                first, second = ("NonDetached" in names, "Detached" in names_e)
                ok = oo == {("param", "options", "detached_payload")} and ((neg and first and second) or ((not neg) and "Detached" in names and "NonDetached" in names_e))
            r4.site("detached_payload option selects Detached/NonDetached: %s" % ok, eo[0]["sp"])
            r4.require(ok, (fn, "detached"), "options.detached_payload does not select CompactJwsEncodingOptions::Detached")
        for n_, oc in H.exits(h):
            if oc == "Ok":
                fns_ = H.called_fns(n_)
                r4.require(ENC + "::CompactJwsEncoder::into_jws" in fns_, (fn, "returns"), "create_jws does not return jws_encoder.into_jws(&signature)")
    r4.floor(12)

    # ------------------------------------------------------------------ R5 verification side used by the round trip (shared with C03-R6)
    r5 = R.rule("C08-R5", "T2+T3+T6", "CoreDocument::verify_jws resolves kid within the configured scope and requires full nonce equality (a token never verifies under a different nonce or an excluding scope)")
    c03.verify_jws_rules(F, r5)

    # ------------------------------------------------------------------ R6 general serialization: one payload encoding for all recipients
    r6 = R.rule("C08-R6", "T2", "every recipient of a general-serialization JWS shares the effective b64 of the first one (C11-R5), otherwise a later signature is "
                "computed over an encoding of the payload the decoder will not reproduce")
    L.depends_on(r6, F, tier, ["C11-R5"], "all recipients of one general JWS agree on b64")
    r6.floor(1)
