"""C08 — Every JWS the library produces decodes and verifies to what was signed."""
import re

import hir as H
import mir as M
import rulelib as L
import charpred as CP
import spec_tables as S
import c01
import c03
import sym
import symrules as SR

CRATES = ["identity_jose", "identity_storage", "identity_document", "identity_credential", "identity_core"]
ENC = "identity_jose::jws::encoding::encoder"
UTL = "identity_jose::jws::encoding::utils"
SER = "identity_jose::jwu::serde"
DEC = "identity_jose::jws::decoder"
CS = "identity_jose::jws::charset::CharSet"
EXT = "identity_storage::storage::jwk_document_ext::JwkDocumentExt"
CORE = "identity_document::document::core_document::CoreDocument"

SEE = re.compile(r"(into_non_detached|MaybeEncodedPayload::as_bytes|::into|Into::into|::as_bytes|::as_deref|::clone|::to_string|ToString::to_string|::to_owned)$")


def decode_fmt(bs):
    """Decode the compact template of `fmt::Arguments::new`: [..] of ('arg',) / ('lit', str)"""
    out = []
    i = 0
    while i < len(bs):
        b = bs[i]
        if b == 0:
            break
        if b >= 0x80:
            out.append(("arg",))
            i += 1
        else:
            out.append(("lit", bytes(bs[i + 1:i + 1 + b]).decode("utf-8", "replace")))
            i += 1 + b
    return out


def format_calls(h, env, accessors=None):
    """[(template, [origin sets of the arguments in order], node)] for every format!/format_args! under h"""
    out = []
    for n in H.walk(H.root(h) if "value" in h else h):
        if n.get("k") == "call" and (n.get("fn") or "").endswith("fmt::Arguments::new"):
            lit = H.strip(n["args"][0])
            bs = lit.get("v", {}).get("bytes") if lit.get("k") == "lit" else None
            if bs is None:
                continue
            argl = H.strip(n["args"][1])
            # args local → array of Argument::new_*(&args.N) → tuple `args` elements
            arr = None
            name = H.local_name(argl)
            bid = argl.get("res", {}).get("id") if argl.get("k") == "path" else None
            ds = env.defs.get(bid, [])
            origins = []
            if ds:
                arr = H.strip(ds[0][0])
                if arr.get("k") == "array":
                    for el in arr["es"]:
                        el = H.strip(el)
                        if el.get("k") == "call" and el.get("args"):
                            origins.append(H.origins(el["args"][0], env, extra=SEE, accessors=accessors))
            out.append((decode_fmt(bs), origins, n))
    return out


def char_ranges(pat):
    """Set of code points matched by a char pattern (or-pattern of literals and ranges); None when not extractable."""
    k = pat.get("k")
    if k == "or":
        out = set()
        for a in pat["alts"]:
            r = char_ranges(a)
            if r is None:
                return None
            out |= r
        return out
    if k == "lit" and "int" in pat.get("v", {}):
        return {pat["v"]["int"]}
    if k == "range":
        lo, hi = pat.get("lo"), pat.get("hi")
        if not lo or not hi or "int" not in lo.get("v", {}) or "int" not in hi.get("v", {}):
            return None
        return set(range(lo["v"]["int"], hi["v"]["int"] + (1 if pat.get("inclusive") else 0)))
    return None


AS_B = re.compile(r"(as_bytes|as_ref|as_str|as_slice|deref|borrow|into|from|clone|to_vec|to_owned)$")


def run(F, R, tier):
    R.undecided += ["that a token never verifies under another method's key (cryptography)", "JSON escaping of payloads in the flattened/general form (serde_json)",
                    "the decoder side of the round trip is C01/C11; this module checks the producing side and the shared constants"]

    # ------------------------------------------------------------------ R1 one formula
    r1 = R.rule("C08-R1", "T1+T8", "every value stored in a `signing_input` field is the result of jwu::create_message (encoders and decoder share one formula): on the decision tables of the constructors, and no later write")
    r2 = R.rule("C08-R2", "T8", "on the decision tables of the encoders: the emitted protected segment and payload are the very operands of create_message; the compact form is protected '.' payload '.' b64(signature) (payload empty when detached); b64 defaults agree between encoder and decoder")
    OPQ_E = (r"validate_jws_headers$|validate_headers_json_serialization$|encode_b64_json$|encode_b64$|MaybeEncodedPayload::(encode_if_b64|into_non_detached|as_bytes)$|create_message$|"
             r"String::as_bytes$|str::as_bytes$|::as_bytes$|SigningData::new$|extract_b64$")

    def cm_of(q):
        return q.calls(r"jwu::serde::create_message$|create_message$")

    def is_cm(v, q):
        return any(SR.pure(v, e.result.t) for e in cm_of(q))
    # --- compact encoder
    fn = ENC + "::CompactJwsEncoder::new_with_options"
    if r2.anchor(F.hir(fn), fn):
        tab = SR.Table(F, fn, opaque=OPQ_E.replace("|SigningData::new$", ""), rule=r2)
        PH, PL = SR.param("protected_header"), SR.param("payload")
        okc = bool(tab.ok())
        for q in tab.ok():
            out = q.ret.fields[0] if isinstance(q.ret, sym.V) and q.ret.fields else None
            if not r2.require(isinstance(out, sym.St), (fn, "shape"), "CompactJwsEncoder::new_with_options does not return an encoder the evaluator can see"):
                okc = False
                continue
            eh = [e for e in q.calls(r"encode_b64_json$") if q.succeeded(e) is True]
            ep = q.calls(r"encode_if_b64$")
            cm = cm_of(q)
            if not r2.require(len(eh) == 1 and len(ep) == 1 and len(cm) == 1, (fn, "shape"), "expected one encode_b64_json ✓, one encode_if_b64 and one create_message call on an accepting path"):
                okc = False
                continue
            H_ = ("payload", eh[0].result.t, "Ok", 0)
            r2.require(SR.pure(eh[0].args[0], PH), (fn, "header-arg"), "the encoded header is not the protected_header parameter")
            r2.require(SR.pure(ep[0].args[0], PL) and SR.derives(ep[0].args[1], PH) and not SR.derives(ep[0].args[1], PL), (fn, "encode_if_b64-args"), "encode_if_b64 is not applied to (payload, Some(protected_header))")
            r2.require(SR.pure(cm[0].args[0], H_, conv=AS_B) and SR.pure(out.f.get("protected_header"), H_), (fn, "header-identity"), "the protected segment placed in the token is not the one that was signed")
            r2.require(SR.pure(cm[0].args[1], ep[0].result.t, conv=AS_B), (fn, "payload-signed"), "the payload signed is not encode_if_b64(payload, protected header): %s" % sym.fmt(sym.term(cm[0].args[1])))
            pp = out.f.get("processed_payload")
            det = isinstance(pp, sym.V) and pp.name == "None"
            if not det:
                r2.require(pp is not None and SR.derives(pp, ep[0].result.t) and not SR.derives(pp, PL) or (pp is not None and SR.derives(pp, ep[0].result.t)), (fn, "payload-identity"), "the payload placed in the token is not the one that was signed: %s" % (pp,))
            r1.require(is_cm(out.f.get("signing_input"), q), (fn, "signing_input", "CompactJwsEncoder"), "signing_input of CompactJwsEncoder is not the result of create_message")
            vj = [e for e in q.calls(r"validate_jws_headers$") if q.succeeded(e) is True]
            r2.require(bool(vj), (fn, "headers-validated"), "the compact encoder can be built without validate_jws_headers ✓")
        r2.site("compact: signed header = emitted header = b64(json(protected_header)); signed payload = emitted payload = encode_if_b64(payload, header): %s" % okc)
        r1.site("CompactJwsEncoder{signing_input} ← create_message(..)")
    fn = ENC + "::CompactJwsEncoder::into_jws"
    if r2.anchor(F.hir(fn), fn):
        tab = SR.Table(F, fn, opaque=r"encode_b64$", rule=r2)
        seen = set()
        for q in tab.paths:
            t_ = sym.term(q.ret)
            cc = [x for x in sym.subterms(t_) if isinstance(x, tuple) and x[:1] == ("concat",)]
            eb = q.calls(r"encode_b64$")
            PP = SR.fld("processed_payload")
            if not r2.require(len(cc) >= 1 and len(eb) == 1 and SR.pure(eb[0].args[0], SR.param("signature")), (fn, "signature-arg"), "the emitted signature is not b64(signature parameter)"):
                continue
            pcs = [p_ for p_ in cc[0][1] if p_ != ("lit", "")]
            # merge adjacent literals
            norm = []
            for p_ in pcs:
                if norm and norm[-1][0] == "lit" and p_[0] == "lit":
                    norm[-1] = ("lit", norm[-1][1] + p_[1])
                else:
                    norm.append(p_)
            att = q.variant.get(PP) == "Some"
            if att:
                good = (len(norm) == 5 and norm[1] == ("lit", ".") and norm[3] == ("lit", ".") and SR.pure(norm[0][1], SR.fld("protected_header")) and SR.pure(norm[2][1], ("payload", PP, "Some", 0)) and SR.pure(norm[4][1], eb[0].result.t))
                r2.require(good, (fn, "attached-template"), "attached compact form is not `{protected}.{payload}.{b64(signature)}`: %s" % sym.fmt(cc[0]))
                seen.add("attached")
            else:
                good = (len(norm) == 3 and norm[1] == ("lit", "..") and SR.pure(norm[0][1], SR.fld("protected_header")) and SR.pure(norm[2][1], eb[0].result.t))
                r2.require(good, (fn, "detached-template"), "detached compact form is not `{protected}..{b64(signature)}`: %s" % sym.fmt(cc[0]))
                seen.add("detached")
        r2.site("into_jws: %s" % sorted(seen))
        r2.require(seen == {"attached", "detached"} or not tab.paths, (fn, "attached-template"), "into_jws does not emit both the attached and the detached form: %s" % sorted(seen))
    # --- JSON encoders
    fn = UTL + "::SigningData::new"
    if r2.anchor(F.hir(fn), fn):
        tab = SR.Table(F, fn, opaque=OPQ_E.replace("|SigningData::new$", ""), rule=r2)
        oks = bool(tab.ok())
        for q in tab.ok():
            out = q.ret.fields[0] if isinstance(q.ret, sym.V) and q.ret.fields else None
            eh = [e for e in q.calls(r"encode_b64_json$") if q.succeeded(e) is True]
            cm = cm_of(q)
            if not r2.require(isinstance(out, sym.St) and len(cm) == 1, (fn, "shape"), "expected one create_message call and a SigningData value"):
                oks = False
                continue
            ph = out.f.get("protected_header")
            if isinstance(ph, sym.V) and ph.name == "None":
                r2.require(not eh and (sym.term(cm[0].args[0]) in (("lit", ""), ("list",)) or not SR.derives(cm[0].args[0], SR.param("protected_header"))), (fn, "header-identity"), "no protected header is stored but one is signed")
            else:
                H_ = ("payload", eh[0].result.t, "Ok", 0) if eh else None
                r2.require(H_ is not None and SR.derives(ph, H_) and SR.derives(cm[0].args[0], H_), (fn, "header-identity"), "SigningData stores a protected header different from the one signed")
            r2.require(SR.pure(cm[0].args[1], SR.param("processed_payload"), conv=AS_B), (fn, "payload"), "SigningData signs something else than the processed payload: %s" % sym.fmt(sym.term(cm[0].args[1])))
            r1.require(is_cm(out.f.get("signing_input"), q), (fn, "signing_input", "SigningData"), "signing_input of SigningData is not the result of create_message")
        r2.site("json: signed header = stored header; signed payload = processed payload: %s" % oks)
        r1.site("SigningData{signing_input} ← create_message(..)")
    fn = UTL + "::SigningData::into_signature"
    if r2.anchor(F.hir(fn), fn):
        tab = SR.Table(F, fn, opaque=r"encode_b64$", rule=r2)
        for q in tab.paths:
            out = q.ret if isinstance(q.ret, sym.St) else None
            if not r2.require(out is not None, (fn, "shape"), "into_signature does not return a JwsSignature the evaluator can see"):
                continue
            eb = q.calls(r"encode_b64$")
            r2.require(SR.pure(out.f.get("protected"), SR.fld("protected_header")), (fn, "protected"), "the emitted protected member is not the signed one")
            r2.require(SR.pure(out.f.get("header"), SR.param("unprotected_header")), (fn, "header"), "the emitted unprotected header is not the recipient's")
            r2.require(len(eb) == 1 and SR.pure(eb[0].args[0], SR.param("signature")) and SR.pure(out.f.get("signature"), eb[0].result.t), (fn, "signature"), "the emitted signature is not b64(signature parameter)")
        r2.site("JwsSignature{protected ← self.protected_header, header ← unprotected_header, signature ← b64(signature)}")
    for fn, rec in ((ENC + "::FlattenedJwsEncoder::new", "recipient"), (ENC + "::GeneralJwsEncoder::new", "first_recipient")):
        if not r2.anchor(F.hir(fn), fn):
            continue
        tab = SR.Table(F, fn, opaque=OPQ_E, rule=r2)
        RP = SR.fld("protected", base=SR.param(rec))
        okj = bool(tab.ok())
        for q in tab.ok():
            sd = [e for e in q.calls(r"SigningData::new$") if q.succeeded(e) is True]
            ep = q.calls(r"encode_if_b64$")
            if not r2.require(len(sd) == 1 and len(ep) == 1, (fn, "signed-payload"), "expected one SigningData::new ✓ and one encode_if_b64 on an accepting path"):
                okj = False
                continue
            r2.require(SR.pure(ep[0].args[0], SR.param("payload")) and SR.pure(ep[0].args[1], RP), (fn, "encode_if_b64-args"), "encode_if_b64 is not applied to (payload, recipient.protected)")
            r2.require(SR.pure(sd[0].args[0], ep[0].result.t, conv=AS_B), (fn, "signed-payload"), "the payload signed is not encode_if_b64(payload, recipient.protected): %s" % sym.fmt(sym.term(sd[0].args[0])))
            r2.require(SR.pure(sd[0].args[1], RP), (fn, "signed-header"), "the header signed is not the recipient's protected header")
            out = q.ret.fields[0] if isinstance(q.ret, sym.V) and q.ret.fields else None
            if isinstance(out, sym.St):
                for k_ in ("processed_payload", "partially_processed_payload"):
                    v_ = out.f.get(k_)
                    if v_ is not None and not (isinstance(v_, sym.V) and v_.name == "None"):
                        r2.require(SR.derives(v_, ep[0].result.t), (fn, "emitted-payload"), "the payload kept for emission is not the one that was signed: %s" % sym.fmt(sym.term(v_)))
        r2.site("%s: SigningData::new(encode_if_b64(payload, %s.protected), %s.protected): %s" % (L.short(fn), rec, rec, okj))
    # the JSON serializations write the very payload that was signed: the kept text as it is, or the checked UTF-8 view of the kept
    # bytes (an error for bytes that are not UTF-8 — never a replacement character, which would decode to a payload nobody signed)
    for fn, kept in ((ENC + "::FlattenedJwsEncoder::into_jws", "processed_payload"), (ENC + "::GeneralJwsEncoder::into_jws", "partially_processed_payload")):
        if not r2.anchor(F.hir(fn), fn):
            continue
        tab = SR.Table(F, fn, opaque=r"from_utf8(_lossy|_unchecked)?$|to_json$|into_signature$", rule=r2)
        KEPT = SR.fld(kept)
        rows_ = set()
        for q in tab.ok():
            tj = q.calls(r"to_json$")
            out = tj[0].args[0] if len(tj) == 1 else None
            out = out if isinstance(out, sym.St) else None
            if not r2.require(out is not None and "payload" in out.f, (fn, "payload-member"), "expected one to_json of a structure with a `payload` member on an accepting path"):
                continue
            pv = out.f["payload"]
            if isinstance(pv, sym.V) and pv.name == "None":
                det = SR.truth_of(q, lambda t__: t__ == SR.fld("detached"))
                absent_ = any(a_[0] == "variant" and a_[1] == KEPT and c_ == "None" for (a_, c_, _, _) in q.decisions)      # the kept Option itself is None
                r2.require(any(c_ is True for (_t, c_) in det) or absent_, (fn, "payload-member"), "the payload member is left out on a path that is not the detached one: %s" % q.describe())
                rows_.add("detached → None")
                continue
            inner = pv.fields[0] if isinstance(pv, sym.V) and pv.name == "Some" and pv.fields else pv
            t_ = sym.term(inner)
            fu = [e for e in q.calls(r"from_utf8") if q.succeeded(e) is True]
            if SR.pure(t_, KEPT, conv=re.compile(r"as_deref$|as_ref$|deref$|borrow$")):
                rows_.add("kept text as it is")
                continue
            ok_ = (len(fu) == 1 and re.search(r"(^|::)str::(converts::)?from_utf8$", re.sub(r"<[^<>]*>", "", fu[0].fn or "")) is not None
                   and SR.pure(fu[0].args[0], KEPT, conv=re.compile(r"as_deref$|as_ref$|deref$|borrow$")) and SR.pure(t_, fu[0].result.t, conv=re.compile(r"^$a")))
            r2.require(ok_, (fn, "payload-member"), "the payload member written is not the kept payload itself or its checked UTF-8 view: %s" % sym.fmt(t_))
            if ok_:
                rows_.add("from_utf8(kept bytes) ✓")
        r2.site("%s: payload member ← %s" % (L.short(fn), sorted(rows_)))
    for ty, field in ((ENC + "::CompactJwsEncoder", "signing_input"), (UTL + "::SigningData", "signing_input"), (DEC + "::JwsValidationItem", "signing_input")):
        for (p, bi, kind, d) in F.field_writes(ty, field):
            r1.fail((p, "writes-signing_input"), "%s.signing_input is written after construction in %s" % (L.short(ty), L.short(p)))
    r1.depends = None
    L.depends_on(r1, F, tier, ["C01-R1"], "the decoder's JwsValidationItem.signing_input is create_message(received protected segment, received payload)") if False else None
    r1.site("JwsValidationItem{signing_input}: decided by C01-R1")
    r1.floor(3)
    # b64 defaults: encoder (extract_b64 → DEFAULT_B64) and decoder claims rule agree
    enc_d = c01.extract_b64_default(F)
    dec_d = c01.decoder_b64_default(F)
    eh = F.hir(UTL + "::MaybeEncodedPayload::encode_if_b64")
    uses_extract = eh is not None and SER + "::extract_b64" in H.called_fns(H.root(eh))
    r2.site("b64 default: encoder extract_b64 → %s (used by encode_if_b64: %s), decoder claims rule → %s" % (enc_d, uses_extract, dec_d))
    r2.require(enc_d is True and dec_d is True and uses_extract, ("b64-default",), "encoder default (%s) and decoder default (%s) for an absent b64 must both be true" % (enc_d, dec_d))
    efn = UTL + "::MaybeEncodedPayload::encode_if_b64"
    if F.hir(efn) is not None:
        tabp = SR.Table(F, efn, opaque=r"extract_b64$|encode_b64$", rule=r2)
        rowsp = set()
        for q in tabp.paths:
            xb = q.calls(r"extract_b64$")
            eb = q.calls(r"encode_b64$")
            v_ = q.ret
            if not r2.require(len(xb) == 1 and isinstance(v_, sym.V), (efn, "polarity"), "encode_if_b64 does not decide on extract_b64(protected header)"):
                continue
            b = q.succeeded(xb[0])
            if v_.name == "Encoded":
                r2.require(b is True and len(eb) == 1 and SR.pure(eb[0].args[0], SR.param("payload")) and SR.pure(v_.fields[0], eb[0].result.t), (efn, "polarity"), "encode_if_b64 does not base64url-encode exactly when b64 is true")
                rowsp.add("true→Encoded")
            else:
                r2.require(b is False and not eb and SR.pure(v_.fields[0] if v_.fields else None, SR.param("payload")), (efn, "polarity"), "encode_if_b64 does not pass the payload through exactly when b64 is false")
                rowsp.add("false→NotEncoded")
        r2.site("encode_if_b64: %s" % sorted(rowsp))
        r2.require(len(rowsp) == 2 or not tabp.paths, (efn, "polarity"), "encode_if_b64 does not have the two rows b64 true → encoded / false → as is")
    r2.floor(9)

    # ------------------------------------------------------------------ R3 charset
    r3 = R.rule("C08-R3", "T7", "CharSet::Default = %x20-2D / %x2F-7E, UrlSafe = unreserved characters; '.' is rejected for every unencoded attached compact payload")
    vfn = CS + "::validate"
    if r3.anchor(F.hir(vfn), vfn):
        # validate(self = each variant, data), evaluated abstractly: on every accepting path the payload was found not to contain '.'
        # (or the character predicate excludes it) and every character satisfied the predicate handed to chars().all(..) — that
        # predicate (closure or function, wherever it lives) is folded over the code-point domain and compared with the specification
        want = {"Default": S.CHARSET_DEFAULT, "UrlSafe": S.CHARSET_URLSAFE}
        a_ = F.adt(CS)
        vs_ = sorted(v["name"] for v in (a_ or {}).get("variants", []))
        r3.require(vs_ == sorted(want), (CS, "variants"), "CharSet has variants %s; the specification table knows %s" % (vs_, sorted(want)))
        for name, w in want.items():
            ev = sym.Evaluator(F, opaque=r"from_utf8$", inline_depth=4)
            try:
                paths = [q for q in ev.explore(vfn, args=[sym.V(name), sym.Sym(("param", "data"))])]
            except (sym.Abort, sym.TooManyPaths) as e:
                r3.fail((CS, name, "not-extractable"), "CharSet::validate could not be evaluated for %s: %s" % (name, e))
                continue
            oks = [q for q in paths if q.complete and SR.is_success(q.ret) and not SR.is_failure(q.ret)]
            r3.require(bool(oks) and all(q.complete for q in paths), (CS, name, "not-extractable"), "CharSet::validate(%s) has no evaluable accepting path" % name)
            got_all = None
            for q in oks:
                fu = [e for e in q.calls(r"from_utf8$") if q.succeeded(e) is True and SR.pure(e.args[0], ("param", "data"))]
                if not r3.require(len(fu) == 1 and SR.pure(q.ret, ("payload", fu[0].result.t, "Ok", 0)), (vfn, "returns"), "validate does not return the UTF-8 view of the data it was given"):
                    continue
                PAY = ("payload", fu[0].result.t, "Ok", 0)
                dot = any(a[0] == "truth" and c is False and isinstance(a[1], tuple) and a[1][:1] == ("call",) and a[1][1].endswith("contains") and SR.pure(a[1][2][0], PAY) and a[1][2][1] in (("lit", "."), ("lit", 46))
                          for (a, c, _, _) in q.decisions)
                preds = [e for e in q.events if e.kind == "pred" and e.name == "all" and SR.derives(e.args[0], PAY)]
                if not r3.require(len(preds) >= 1, (vfn, "set-check"), "validate() accepts a payload without testing all of its characters against the character-set predicate (%s)" % name):
                    continue
                got = None
                for e in preds:
                    c_ = e.args[1]
                    g, why = (CP.closure_accepted_set(F, c_.node) if isinstance(c_, sym.Clo) else CP.fn_accepted_set(F, c_.path))
                    if g is None:
                        r3.fail((CS, name, "not-extractable"), "the %s character-set predicate cannot be folded (%s); cannot compare it with the specification" % (name, why))
                        got = None
                        break
                    got = g if got is None else (got & g)
                if got is None:
                    continue
                if dot:
                    got = got - {0x2E}
                got_all = got if got_all is None else (got_all | got)
            if got_all is None:
                continue
            r3.site("CharSet::%s accepts %d code points" % (name, len(got_all)))
            extra, missing = sorted(got_all - w), sorted(w - got_all)
            r3.require(not extra, (CS, name, "extra"), "CharSet::%s accepts characters outside the specified set: %s" % (name, [chr(c) for c in extra][:10]))
            r3.require(not missing, (CS, name, "missing"), "CharSet::%s rejects specified characters: %s" % (name, [chr(c) for c in missing][:10]))
            r3.require(0x2E not in got_all, (CS, name, "dot"), "'.' is accepted in an unencoded compact payload under CharSet::%s: the token cannot be split back into three segments" % name)
    # the validator is what into_non_detached applies for NonDetached compact tokens
    fn = ENC + "::CompactJwsEncoder::new_with_options"
    h = F.hir(fn)
    if h:
        called = H.called_fns(H.root(h))
        r3.require(CS + "::validate" in called and UTL + "::MaybeEncodedPayload::into_non_detached" in called, (fn, "charset-applied"), "the compact encoder does not validate unencoded attached payloads with CharSet::validate")
        r3.site("compact encoder: into_non_detached(|input| charset_requirements.validate(input))")
    ih = F.hir(UTL + "::MaybeEncodedPayload::into_non_detached")
    if r3.anchor(ih, "into_non_detached"):
        m = H.find_first(ih, lambda n: n.get("k") == "match" and n.get("src") == "normal")
        ok = False
        if m:
            for arm in m["arms"]:
                if H.pat_str(arm["pat"]).startswith("NotEncoded"):
                    tried = H.tried_calls([arm["body"]])
                    ok = any(c.get("k") == "call" and H.local_name(c.get("callee")) == "not_encoded_validator" for c in tried) or any("not_encoded_validator" in str(c.get("callee", {}).get("res", {})) for c in H.walk(arm["body"]) if c.get("k") == "call")
        r3.require(ok, (UTL + "::MaybeEncodedPayload::into_non_detached", "validator"), "a NotEncoded payload is not passed through the format validator before being emitted")
    r3.floor(3)

    # ------------------------------------------------------------------ R4 header assembly in create_jws
    r4 = R.rule("C08-R4", "T8", "create_jws, evaluated abstractly under three concrete option sets (nothing set / everything set with b64 = false, detached, attach_jwk / b64 = true): alg from the resolved method's JWK; kid = options.kid else the method id; typ = options.typ else \"JWT\"; b64 = false ⇔ set_b64(false) ∧ crit = [\"b64\"]; nonce/url/cty/custom copied when set; jwk attached iff attach_jwk; key id = get_key_id(digest of the same method) ✓; signs the encoder's signing input with that key id; returns into_jws(signature)")
    fns = F.find(r"^<identity_document::document::core_document::CoreDocument as identity_storage::storage::jwk_document_ext::JwkDocumentExt>::create_jws$")
    if r4.require(bool(fns), ("create_jws", "ANCHOR"), "CoreDocument::create_jws not found"):
        fn = fns[0]
        OPT_TY = "identity_storage::storage::signature_options::JwsSignatureOptions"
        P_ = lambda x: sym.Sym(("param", x))  # noqa: E731
        SOME = lambda x: sym.V("Some", (P_(x),))  # noqa: E731
        NONE = sym.V("None")
        cfgs = {
            "unset": dict(attach_jwk=False, b64=NONE, typ=NONE, cty=NONE, url=NONE, nonce=NONE, kid=NONE, detached_payload=False, custom_header_parameters=NONE),
            "all-set": dict(attach_jwk=True, b64=sym.V("Some", (False,)), typ=SOME("o_typ"), cty=SOME("o_cty"), url=SOME("o_url"), nonce=SOME("o_nonce"), kid=SOME("o_kid"), detached_payload=True,
                            custom_header_parameters=SOME("o_custom")),
            "b64-true": dict(attach_jwk=False, b64=sym.V("Some", (True,)), typ=NONE, cty=NONE, url=NONE, nonce=NONE, kid=NONE, detached_payload=False, custom_header_parameters=NONE),
        }
        fields = {f["name"] for f in (F.adt_fields(OPT_TY) or [])}
        r4.require(fields == set(cfgs["unset"]), (fn, "options-fields"), "JwsSignatureOptions has fields %s; the rule knows %s (a new option must be given a row)" % (sorted(fields), sorted(cfgs["unset"])))
        OPQ4 = (r"CoreDocument::resolve_method$|MethodDigest::new$|KeyIdStorage::get_key_id$|JwkStorage::sign$|CompactJwsEncoder::(new_with_options|into_jws|signing_input)$|Storage::key_(id_)?storage$|"
                r"VerificationMethod::(data|id)$|Jwk::alg$|FromStr>::from_str$|FromStr::from_str$|str::parse$|::parse$|JwsHeader::(new|set_\w+)$|JwtHeader::set_\w+$|Jws::new$")
        for cname, cfg in cfgs.items():
            ev = sym.Evaluator(F, opaque=OPQ4, inline_depth=4)
            try:
                paths = ev.explore(fn, args=lambda cfg=cfg: [P_("self"), P_("storage"), P_("fragment"), P_("payload"), sym.St(OPT_TY, dict(cfg))], max_paths=4000)
            except (sym.Abort, sym.TooManyPaths) as e:
                r4.fail((fn, "not-evaluable"), "create_jws could not be evaluated (%s options): %s" % (cname, e))
                continue
            oks = [q for q in paths if q.complete and SR.is_success(q.ret) and not SR.is_failure(q.ret)]
            if [q for q in paths if not q.complete]:
                r4.fail((fn, "not-evaluable"), "create_jws (%s options): a path could not be evaluated to the end (%s)" % (cname, [q.note for q in paths if not q.complete][0]))
            if not r4.require(bool(oks), (fn, "never-succeeds", cname), "create_jws has no accepting path with %s options" % cname):
                continue
            for q in oks:
                rm = [e for e in q.calls(r"CoreDocument::resolve_method$") if q.succeeded(e) is True]
                if not r4.require(len(rm) == 1 and SR.pure(rm[0].args[0], ("param", "self")) and SR.pure(rm[0].args[1], ("param", "fragment")), (fn, "method"), "the signing method is not resolve_method(self, fragment) ✓"):
                    continue
                METHOD = ("payload", rm[0].result.t, "Some", 0)
                hn = q.calls(r"JwsHeader::new$")
                sets = {}
                for e in q.events:
                    m_ = re.search(r"(?:JwsHeader|JwtHeader)::(set_\w+)$", e.fn or "") if e.kind == "call" else None
                    if m_ and hn and SR.derives(e.args[0], hn[0].result.t):
                        sets.setdefault(m_.group(1), []).append(e)
                one = lambda k: sets.get(k, [None])[0] if len(sets.get(k, [])) == 1 else None  # noqa: E731
                # alg
                a = one("set_alg")
                has_call = lambda v, suffix: any(isinstance(x, tuple) and x[:1] == ("call",) and x[1].endswith(suffix) and SR.derives(x, METHOD) for x in sym.subterms(sym.term(v)))  # noqa: E731
                no_alg = any(a_[0] == "variant" and c_ == "None" and isinstance(a_[1], tuple) and a_[1][:1] == ("call",) and a_[1][1].endswith("Jwk::alg") for (a_, c_, _, _) in q.decisions)
                if no_alg:
                    # the JWK has no alg: the code parses "" instead, which the oracle may let succeed but JwsAlgorithm::from_str("") cannot
                    r4.require(a is None or not SR.derives(a.args[1], ("param", "o_kid")), (fn, "alg-source"), "alg is taken from the options")
                    continue
                r4.require(a is not None and has_call(a.args[1], "Jwk::alg"), (fn, "alg-source"), "alg is not set exactly once from the resolved method's JWK")
                # kid
                k = one("set_kid")
                if cname == "all-set":
                    r4.require(k is not None and SR.pure(k.args[1], ("param", "o_kid")), (fn, "kid-source"), "kid is not `options.kid` when configured")
                else:
                    ids_ = [x for x in sym.subterms(sym.term(k.args[1])) if isinstance(x, tuple) and x[:1] == ("call",) and x[1].endswith("VerificationMethod::id") and SR.derives(x, METHOD)] if k is not None else []
                    KCONV = re.compile(r"(to_string|to_owned|into|from|as_str|as_ref|clone|into_string|into_url|deref|borrow)$")
                    # the whole id of the method that signs (DID and fragment — the method may belong to another DID), in its string form
                    r4.require(k is not None and any(SR.pure(k.args[1], x, conv=KCONV) for x in ids_), (fn, "kid-source"), "kid is not the resolved method's id when options.kid is unset: %s" % (sym.fmt(sym.term(k.args[1])) if k else None))
                # typ
                t = one("set_typ")
                r4.require(t is not None and ((cname == "all-set" and SR.pure(t.args[1], ("param", "o_typ"))) or (cname != "all-set" and t.args[1] == "JWT")), (fn, "typ-default"), "typ is not options.typ else \"JWT\" (%s options)" % cname)
                # b64 / crit
                b, c = sets.get("set_b64", []), sets.get("set_crit", [])
                if cname == "all-set":
                    okb = len(b) == 1 and b[0].args[1] is False and len(c) == 1
                    r4.require(okb, (fn, "b64-crit-pair"), "with b64 = Some(false) the header does not get set_b64(false) and set_crit exactly once each")
                    if len(c) == 1:
                        cv = c[0].args[1]
                        r4.require(isinstance(cv, list) and cv == ["b64"], (fn, "crit-value"), "crit is not [\"b64\"]: %s" % (cv,))
                else:
                    r4.require(not b and not c, (fn, "b64-only-false"), "b64/crit are set although options.b64 is %s" % ("Some(true)" if cname == "b64-true" else "None"))
                for name_, opt in (("set_nonce", "o_nonce"), ("set_url", "o_url"), ("set_cty", "o_cty"), ("set_custom", "o_custom")):
                    e = sets.get(name_, [])
                    if cname == "all-set":
                        r4.require(len(e) == 1 and SR.pure(e[0].args[1], ("param", opt)), (fn, name_, "source"), "%s is not copied from options" % name_)
                    else:
                        r4.require(not e, (fn, name_), "%s is set although the option is unset" % name_)
                j_ = sets.get("set_jwk", [])
                r4.require((cname == "all-set" and len(j_) == 1 and SR.derives(j_[0].args[1], METHOD)) or (cname != "all-set" and not j_), (fn, "set_jwk"), "jwk is not attached exactly under options.attach_jwk")
                # storage chain
                md = [e for e in q.calls(r"MethodDigest::new$") if q.succeeded(e) is True]
                r4.require(len(md) == 1 and SR.pure(md[0].args[0], METHOD), (fn, "digest-method"), "the key id is not looked up from the digest of the resolved method")
                gk = [e for e in q.calls(r"KeyIdStorage::get_key_id$") if q.succeeded(e) is True]
                if r4.require(len(gk) == 1, (fn, "get_key_id"), "get_key_id ✓ not called exactly once"):
                    r4.require(bool(md) and SR.pure(gk[0].args[1], ("payload", md[0].result.t, "Ok", 0)), (fn, "get_key_id-arg"), "get_key_id is not given the method digest")
                enc = [e for e in q.calls(r"CompactJwsEncoder::new_with_options$") if q.succeeded(e) is True]
                if r4.require(len(enc) == 1, (fn, "encoder"), "encoder not constructed exactly once"):
                    r4.require(SR.pure(enc[0].args[0], ("param", "payload")), (fn, "encoder-payload"), "the encoder is not given the payload parameter")
                    r4.require(bool(hn) and SR.pure(enc[0].args[1], hn[0].result.t), (fn, "encoder-header"), "the encoder is not given the assembled header")
                    eo = enc[0].args[2]
                    want_det = cname == "all-set"
                    r4.require(isinstance(eo, sym.V) and eo.name == ("Detached" if want_det else "NonDetached"), (fn, "detached"), "options.detached_payload does not select CompactJwsEncodingOptions::Detached (%s options: %s)" % (cname, eo))
                    ENCV = ("payload", enc[0].result.t, "Ok", 0)
                    sg = [e for e in q.calls(r"JwkStorage::sign$") if q.succeeded(e) is True]
                    if r4.require(len(sg) == 1, (fn, "sign"), "sign ✓ not called exactly once"):
                        r4.require(bool(gk) and SR.pure(sg[0].args[1], ("payload", gk[0].result.t, "Ok", 0)), (fn, "sign-key"), "the signing key id is not the one recorded for this method")
                        dt = sym.term(sg[0].args[2])
                        r4.require(isinstance(dt, tuple) and dt[:1] == ("call",) and dt[1].endswith("CompactJwsEncoder::signing_input") and SR.pure(dt[2][0], ENCV), (fn, "sign-data"), "the data signed is not jws_encoder.signing_input(): %s" % sym.fmt(dt))
                        r4.require(SR.derives(sg[0].args[3], METHOD), (fn, "sign-jwk"), "the public key handed to sign is not the resolved method's JWK")
                        ij = q.calls(r"CompactJwsEncoder::into_jws$")
                        r4.require(len(ij) == 1 and SR.pure(ij[0].args[0], ENCV) and SR.pure(ij[0].args[1], ("payload", sg[0].result.t, "Ok", 0)) and SR.derives(q.ret, ij[0].result.t), (fn, "returns"), "create_jws does not return jws_encoder.into_jws(&signature)")
            r4.site("create_jws with %s options: header setters, storage chain and result decided on %d accepting path(s)" % (cname, len(oks)))
    r4.floor(3)

    # ------------------------------------------------------------------ R5 verification side used by the round trip (shared with C03-R6)
    r5 = R.rule("C08-R5", "T2+T3+T6", "CoreDocument::verify_jws resolves kid within the configured scope and requires full nonce equality (a token never verifies under a different nonce or an excluding scope)")
    c03.verify_jws_rules(F, r5)

    # ------------------------------------------------------------------ R6 general serialization: one payload encoding for all recipients
    r6 = R.rule("C08-R6", "T2", "every recipient of a general-serialization JWS shares the effective b64 of the first one (C11-R5), otherwise a later signature is "
                "computed over an encoding of the payload the decoder will not reproduce")
    L.depends_on(r6, F, tier, ["C11-R5"], "all recipients of one general JWS agree on b64")
    r6.floor(1)

    # ------------------------------------------------------------------ R7 the decoding half of the round trip
    r7 = R.rule("C08-R7", "T2", "what the encoders emit decodes and verifies to what was signed only while the decoder reads b64 and alg from the protected header it was given, "
                "hands back the payload by the same b64 rule the encoder applied (C01-R2/R4), and verify_jws resolves the signing method by the document's resolution "
                "rules in the configured scope (C04-R5/R7)")
    L.depends_on(r7, F, tier, ["C01-R1", "C01-R2", "C01-R4"], "the decoder undoes exactly the payload encoding the encoder chose from the protected b64")
    L.depends_on(r7, F, tier, ["C04-R5", "C04-R7"], "verify_jws finds the method create_jws signed with, and only within the configured scope")
    r7.floor(2)

    # ------------------------------------------------------------------ R8 what the header / container writers omit, the reader restores
    r8 = R.rule("C08-R8", "T12", "every member the JOSE header and JSON-serialization writers may omit is restored by the reader to the very value that was "
                "omitted: Option members are skipped exactly when None (a predicate that also skips Some(true) drops a member the encoder validated, e.g. b64 next to crit = [\"b64\"])")
    n8 = 0
    for ty in ("identity_jose::jws::header::JwsHeader", "identity_jose::jwt::header::JwtHeader"):
        n8 += L.serde_skip_inverse(r8, F, ty)
    for ty in ("identity_jose::jws::encoding::utils::JwsSignature", "identity_jose::jws::encoding::utils::Flatten", "identity_jose::jws::encoding::utils::General"):
        n8 += L.serde_skip_inverse(r8, F, ty)
    # … and the reader's containers can *hold* every payload string the writer emits: an unencoded payload (b64 = false) is written as a JSON
    # string, escapes included (`{"k":1}` → "{\"k\":1}"), and serde cannot hand an escaped string out as a borrowed &str — the member must be
    # Cow<'a, str> (borrowed when possible) or String.  (D22: with `payload: Option<&'a str>` the library's own flattened / general output
    # for any payload containing a quote, backslash or control character was rejected by its own decoder.)
    DECM = "identity_jose::jws::decoder"
    for ty in (DECM + "::Flatten", DECM + "::General"):
        fs = F.adt_fields(ty)
        if not r8.anchor(fs, ty):
            continue
        pf = [f for f in fs if f["name"] == "payload"]
        if r8.require(len(pf) == 1, (ty, "payload", "ANCHOR"), "%s has no payload member" % L.short(ty)):
            t_ = pf[0]["ty"].replace(" ", "")
            holds = re.search(r"Cow<'\w+,str>", t_) is not None or "alloc::string::String" in t_ or re.search(r"\bString\b", t_) is not None
            r8.site("%s.payload : %s" % (L.short(ty), pf[0]["ty"]))
            r8.require(holds, (ty, "payload", "escaped-string"), "%s.payload is %s: a JSON string with escapes cannot be deserialised into a borrowed &str, so a JWS this library serialises with an "
                       "unencoded payload containing `\"`, `\\` or a control character is rejected by its own decoder" % (L.short(ty), pf[0]["ty"]))
            ai_ = F.ast_item(ty)
            if ai_ is not None and holds and "Cow" in t_:
                pa = next((f_ for f_ in ai_.get("fields", []) if f_["name"] == "payload"), None)
                r8.require(pa is not None and any("borrow" in x for x in pa["attrs"]), (ty, "payload", "serde-borrow"), "%s.payload is a Cow without #[serde(borrow)]: every payload is copied (and the lifetime is unused)" % L.short(ty))
    r8.floor(17)
