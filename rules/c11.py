"""C11 — JOSE header policy (crit, b64, disjointness, alg) is enforced fail-closed."""
import re

import hir as H
import mir as M
import rulelib as L
import symrules as SR
import sym
import spec_tables as S

CRATES = ["identity_jose"]
SER = "identity_jose::jwu::serde"
JWSH = "identity_jose::jws::header::JwsHeader"
JWTH = "identity_jose::jwt::header::JwtHeader"
ENC = "identity_jose::jws::encoding::encoder"
UTL = "identity_jose::jws::encoding::utils"
DEC = "identity_jose::jws::decoder"


def roots_and_accessors(expr, env):
    """(parameters the expression may depend on, last path segments of every fn called/mentioned under it)"""
    accs = {f.rsplit("::", 1)[-1] for f in H.called_fns(expr)}
    return H.param_roots(expr, env), accs


def run(F, R, tier):
    R.undecided += ["none of substance: the statement is a decision table and the rules extract it; JSON-level duplicate member names inside one header are serde's"]

    # ------------------------------------------------------------------ R1 conjunction + every encoder/decoder validates
    r1 = R.rule("C11-R1", "T2", "validate_jws_headers = validate_disjoint ∧ validate_crit ∧ validate_b64 on (protected, unprotected); all encoders and the decoder pass through it")
    vfn = SER + "::validate_jws_headers"
    # (a) the conjunction, by abstract evaluation with the three validators as opaque calls
    tab = SR.Table(F, vfn, opaque=r"jwu::serde::validate_(disjoint|crit|b64)$", rule=r1)
    for sub in ("validate_disjoint", "validate_crit", "validate_b64"):
        def ok_(q, sub=sub):
            return SR.call_succeeded(q, r"::%s$" % sub, {0: lambda a: sym.term(a) == SR.param("protected"), 1: lambda a: sym.term(a) == SR.param("unprotected")})
        SR.require_on_success(r1, tab, "%s(protected, unprotected) ✓" % sub, ok_, key=(vfn, "missing-before-success", sub),
                              what="%s(protected, unprotected)? succeeded" % sub)
    # (b) every encoder constructor and the decoder: each accepting path has validate_jws_headers ✓ on the headers it goes on to use
    ctors = [
        (ENC + "::CompactJwsEncoder::new_with_options", SR.param("protected_header"), None),
        (ENC + "::FlattenedJwsEncoder::new", SR.fld("protected", base=SR.param("recipient")), SR.fld("unprotected", base=SR.param("recipient"))),
        (ENC + "::GeneralJwsEncoder::new", SR.fld("protected", base=SR.param("first_recipient")), SR.fld("unprotected", base=SR.param("first_recipient"))),
        (ENC + "::GeneralJwsEncoder::add_recipient", SR.fld("protected", base=SR.param("recipient")), SR.fld("unprotected", base=SR.param("recipient"))),
        (DEC + "::Decoder::decode_signature", SR.fld("protected", base=SR.param("jws_signature")), SR.fld("header", base=SR.param("jws_signature"))),
    ]
    for fn, prot, unprot in ctors:
        if not r1.anchor(F.hir(fn), fn):
            continue
        t2 = SR.Table(F, fn, opaque=r"validate_jws_headers$|create_message$|DecodedHeaders::new$|::decode_b64(_json)?$|::encode_b64(_json)?$|encode_if_b64$|into_non_detached$", rule=r1, max_paths=4000)

        def ok2(q, prot=prot, unprot=unprot):
            for e in q.calls(r"validate_jws_headers$"):
                if q.succeeded(e) is not True or len(e.args) < 2:
                    continue
                a0, a1 = e.args
                p_ok = SR.derives(a0, prot) or (SR.variant(q, prot) == "None" and sym.term(a0) == ("ctor", "None"))
                u_ok = (sym.term(a1) == ("ctor", "None")) if unprot is None else (SR.derives(a1, unprot) or (SR.variant(q, unprot) == "None" and sym.term(a1) == ("ctor", "None")))
                if p_ok and u_ok:
                    return True
            return False
        SR.require_on_success(r1, t2, "validate_jws_headers(own headers) ✓", ok2, key=(fn, "missing-before-success", "validate headers"),
                              what="validate_jws_headers(<the protected header used>, <the unprotected header used>)? succeeded")
        r1.site("%s: %d accepting / %d rejecting path(s)" % (L.short(fn), len(t2.ok()), len(t2.err())))
    for (p, bi, t) in F.callers(vfn):
        r1.site("caller of validate_jws_headers: %s" % L.short(p), t["sp"])
    r1.floor(14)

    # ------------------------------------------------------------------ R2 validate_crit
    r2 = R.rule("C11-R2", "T4+T7", "validate_crit: unprotected crit → Err; empty → Err; each value: predefined → Err, not permitted → Err, absent → Err; tables agree with RFC 7515/7516/7518")
    cfn = SER + "::validate_crit"
    CRIT_OPQ = None   # trait methods (has_claim, common, crit) are unresolved generic calls and stay opaque by themselves
    if r2.anchor(F.hir(cfn), cfn):
        tab = SR.Table(F, cfn, opaque=CRIT_OPQ, rule=r2, max_paths=6000)
        UNP, PRO = SR.param("unprotected"), SR.param("protected")

        def has_claim_atoms(q):
            out = []
            for (a, c, _, _) in q.decisions:
                if a[0] == "truth" and isinstance(a[1], tuple) and a[1][:1] == ("call",) and a[1][1].endswith("has_claim"):
                    out.append((a[1][2], c))
            return out

        def elems(q):
            es = set()
            for (a, c, _, _) in q.decisions:
                for t_ in a[1:]:
                    for x in sym.subterms(t_) if isinstance(t_, tuple) else ():
                        if isinstance(x, tuple) and x[:1] == ("elem",):
                            es.add(x)
            return es

        n_ok = 0
        for q in tab.ok():
            n_ok += 1
            # (0) "every listed value" means every: the accepting result is reached by falling out of the loop over the values, not by a
            # `return Ok` from inside it after the first value that passes
            for e in q.events:
                if e.kind == "loop-return" and SR.is_success(e.args[0]) and not SR.is_failure(e.args[0]):
                    r2.fail((cfn, "all-values"), "validate_crit returns Ok from inside the loop over the crit values: the values after the first one that passes are not examined (crit = [\"b64\", \"alg\"] is accepted)")
            # (a) an unprotected crit is never accepted
            for args, val in has_claim_atoms(q):
                if val and SR.derives(args[0], UNP) and args[1] == ("lit", "crit"):
                    r2.fail((cfn, "unprotected-crit", "missing"), "validate_crit accepts a `crit` parameter in the unprotected header — path: %s" % q.describe()[:200])
            crit_present = [t_ for t_, v_ in q.variant.items() if v_ == "Some" and SR.derives(t_, PRO) and "crit" in sym.fmt(t_)]
            # establishment: every accepting path has looked at the unprotected header — it is absent, or it was asked for `crit` ✗
            if SR.variant(q, UNP) != "None":
                r2.require(any(SR.derives(args[0], UNP) and args[1] == ("lit", "crit") and val is False for args, val in has_claim_atoms(q)), (cfn, "unprotected-crit", "unchecked"),
                           "validate_crit accepts without having tested the unprotected header for `crit` — path: %s" % q.describe()[:200])
            es = elems(q)
            if crit_present:
                # (b) an empty list is never accepted
                ne = [c for (a, c, _, _) in q.decisions if a[0] == "nonempty" and any(SR.derives(a[1], t_) or a[1] == t_ for t_ in crit_present)]
                r2.require(ne and all(ne), (cfn, "empty", "missing"), "validate_crit accepts an empty `crit` list — path: %s" % q.describe()[:200])
            for e in es:
                trues = [a[2] if a[1] == e else a[1] for (a, c, _, _) in q.decisions if a[0] == "eq" and c is True and e in (a[1], a[2])]
                names = [t_[1] for t_ in trues if isinstance(t_, tuple) and t_[:1] == ("lit",) and isinstance(t_[1], str)]
                # (c) every listed value is an implemented extension and not a registered header parameter
                r2.require(len(names) == 1 and names[0] in S.IMPLEMENTED_CRIT_EXTENSIONS and names[0] not in S.JOSE_REGISTERED_HEADER_PARAMS, (cfn, "permitted", "missing"),
                           "validate_crit accepts a crit value that is not one of the implemented extensions %s (established equalities: %s) — path: %s" % (
                               S.IMPLEMENTED_CRIT_EXTENSIONS, names, q.describe()[:160]))
                # (d) … and is present as a header parameter
                r2.require(any(val and args[1] == e for args, val in has_claim_atoms(q)), (cfn, "present", "missing"),
                           "validate_crit accepts a crit value without the named parameter being present in the headers — path: %s" % q.describe()[:200])
        r2.site("validate_crit: %d accepting and %d rejecting path(s) evaluated" % (n_ok, len(tab.err())))
        # the rejecting side: each registered name is rejected when listed (there is a rejecting path on which value == name holds)
        rej = set()
        for q in tab.err():
            for (a, c, _, _) in q.decisions:
                if a[0] == "eq" and c is True:
                    for t_ in (a[1], a[2]):
                        if isinstance(t_, tuple) and t_[:1] == ("lit",) and isinstance(t_[1], str):
                            rej.add(t_[1])
        acc = set()
        for q in tab.ok():
            for (a, c, _, _) in q.decisions:
                if a[0] == "eq" and c is True:
                    for t_ in (a[1], a[2]):
                        if isinstance(t_, tuple) and t_[:1] == ("lit",) and isinstance(t_[1], str):
                            acc.add(t_[1])
        r2.site("crit values accepted on some path: %s; rejected by name: %d registered parameters" % (sorted(acc), len(rej & set(S.JOSE_REGISTERED_HEADER_PARAMS))))
        for name in S.JOSE_REGISTERED_HEADER_PARAMS:
            r2.require(name not in acc, ("tables", "registered-accepted", name), "registered header parameter %r is accepted in crit" % name)
        r2.require(acc <= set(S.IMPLEMENTED_CRIT_EXTENSIONS), ("tables", "unimplemented-permitted"), "crit accepts %s, implemented extensions are %s" % (sorted(acc), S.IMPLEMENTED_CRIT_EXTENSIONS))
        pre = L.const_str_array(F, SER + "::PREDEFINED")
        per = L.const_str_array(F, SER + "::PERMITTED_CRITS")
        if pre is not None and per is not None:
            r2.site("PREDEFINED = %s" % pre)
            r2.site("PERMITTED_CRITS = %s" % per)
    r2.floor(3)

    r3 = R.rule("C11-R3", "T4", "validate_b64: unprotected b64 → Err; (b64, no crit) → Err; b64 present ⇒ crit lists it (composition with R2 and PERMITTED_CRITS == {b64})")
    bfn = SER + "::validate_b64"
    if r3.anchor(F.hir(bfn), bfn):
        tab = SR.Table(F, bfn, rule=r3)
        UNP, PRO = SR.param("unprotected"), SR.param("protected")

        def b64_of(q, root):
            for t_, v_ in q.variant.items():
                if isinstance(v_, str) and SR.derives(t_, root) and isinstance(t_, tuple) and t_[:1] == ("field",) and t_[2] == "b64":
                    return v_
            return None

        def crit_of(q):
            for t_, v_ in q.variant.items():
                if isinstance(v_, str) and SR.derives(t_, PRO) and isinstance(t_, tuple) and t_[:1] == ("field",) and t_[2] == "crit":
                    return v_
            return None
        rows = set()
        for q in tab.paths:
            rows.add((b64_of(q, UNP), b64_of(q, PRO), crit_of(q), "Ok" if SR.is_success(q.ret) else "Err"))
        # every accepting path *established* that there is no unprotected b64: either there is no unprotected header or its b64 was
        # looked at and found absent (a path that never looks accepts an unprotected b64)
        for q in tab.paths:
            if SR.is_success(q.ret) and not SR.is_failure(q.ret):
                est = q.variant.get(UNP) == "None" or b64_of(q, UNP) == "None"
                r3.require(est, (bfn, "unprotected-b64", "unexamined"), "validate_b64 accepts on a path that never established that the unprotected header carries no b64: %s" % (q.describe()[:200] or "(unconditional)"))
        for row in sorted(rows, key=str):
            r3.site("validate_b64 row: unprotected b64 %s, protected b64 %s, protected crit %s → %s" % row)
        r3.require(not any(u == "Some" and o == "Ok" for u, b, c, o in rows) and any(u == "Some" for u, b, c, o in rows), (bfn, "unprotected-b64", "missing"),
                   "validate_b64 does not reject an unprotected b64 parameter: %s" % sorted(rows, key=str))
        r3.require(not any(b == "Some" and c != "Some" and o == "Ok" for u, b, c, o in rows) and any(b == "Some" and c == "None" for u, b, c, o in rows), (bfn, "row", "(Some,None)"),
                   "validate_b64 accepts a protected b64 without a crit parameter: %s" % sorted(rows, key=str))
        # (b64 present, crit present but not listing b64): accepted by validate_b64 alone; unreachable in validate_jws_headers because
        # validate_crit (C11-R2, same conjunction C11-R1) rejects an empty crit and every value that is not an implemented extension,
        # and the only implemented extension is b64.  Decided here by requiring exactly that composition.
        r3.require(S.IMPLEMENTED_CRIT_EXTENSIONS == ["b64"], (bfn, "composition", "PERMITTED_CRITS"),
                   "validate_b64 tolerates (b64 present, crit not listing b64); that is only unreachable while b64 is the only accepted crit value")
        r3.exception("validate_b64 accepts (b64, crit ∌ b64)", "checked", "unreachable: C11-R1 requires validate_crit ✓ too, and C11-R2 shows validate_crit accepts only non-empty lists of \"b64\"")
    r3.floor(4)

    # ------------------------------------------------------------------ R4 disjointness
    r4 = R.rule("C11-R4", "T5", "is_disjoint / has cover every header field; custom parameters compared by key")
    _disjoint_rules(F, r4)

    # ------------------------------------------------------------------ R5 add_recipient b64 consistency
    r5 = R.rule("C11-R5", "T2+T6", "GeneralJwsEncoder::add_recipient: extract_b64(recipient.protected) != self.b64 → Err dominates success")
    afn = ENC + "::GeneralJwsEncoder::add_recipient"
    nfn = ENC + "::GeneralJwsEncoder::new"
    OPQ = r"validate_jws_headers$|create_message$|::encode_b64(_json)?$|encode_if_b64$"
    if r5.anchor(F.hir(afn), afn) and r5.anchor(F.hir(nfn), nfn):
        RB64 = ("field", ("payload", SR.fld("protected", base=SR.param("recipient")), "Some", 0), "b64")
        tab = SR.Table(F, afn, opaque=OPQ, rule=r5)

        def consistent(q):
            # the recipient's effective b64 (its protected header's b64, default true) was compared with self.b64 and found equal
            for (a, c, _, _) in q.decisions:
                if a[0] == "eq" and c is True and (SR.derives(a[1], SR.fld("b64")) or SR.derives(a[2], SR.fld("b64"))):
                    other = a[2] if SR.derives(a[1], SR.fld("b64")) else a[1]
                    if SR.derives(other, RB64) and q.variant.get(RB64) == "Some":
                        return True
                    if other == ("lit", True) and q.variant.get(RB64) != "Some":
                        return True
            return False
        SR.require_on_success(r5, tab, "effective b64 of the new recipient == self.b64", consistent, key=(afn, "b64-consistency"),
                              what="extract_b64(recipient.protected) == self.b64")
        for q in tab.ok():
            enc = q.ret.fields[0] if isinstance(q.ret, sym.V) and q.ret.fields else None
            if isinstance(enc, sym.St) and "b64" in enc.f:
                r5.require(sym.term(enc.f["b64"]) == SR.fld("b64"), (afn, "b64-carried"), "add_recipient does not carry self.b64 over: %r" % (enc.f["b64"],))
        r5.site("add_recipient carries b64 from self")
        # GeneralJwsEncoder::new records the first recipient's effective b64
        t2 = SR.Table(F, nfn, opaque=OPQ, rule=r5)
        FB64 = ("field", ("payload", SR.fld("protected", base=SR.param("first_recipient")), "Some", 0), "b64")
        for q in t2.ok():
            enc = q.ret.fields[0] if isinstance(q.ret, sym.V) and q.ret.fields else None
            if not (isinstance(enc, sym.St) and "b64" in enc.f):
                r5.fail((nfn, "b64-field"), "GeneralJwsEncoder::new: the constructed encoder is not visible to the evaluator")
                continue
            v = enc.f["b64"]
            want_some = q.variant.get(FB64) == "Some"
            good = SR.derives(v, FB64) if want_some else (v is True)
            r5.require(good, (nfn, "b64-field"), "b64 recorded by GeneralJwsEncoder::new is not the first recipient's effective b64 (protected b64, default true): %r" % (v,))
        r5.site("GeneralJwsEncoder::new records extract_b64(first_recipient.protected) on %d accepting path(s)" % len(t2.ok()))
    r5.floor(3)

    # ------------------------------------------------------------------ R6 alg required at verification
    r6 = R.rule("C11-R6", "T4", "JwsValidationItem::verify: protected header absent → MissingHeader; alg absent → ProtectedHeaderWithoutAlg; both precede verification")
    vfy = DEC + "::JwsValidationItem::verify"
    if r6.anchor(F.hir(vfy), vfy):
        import c01
        c01.verify_item_facts(F, r6, vfy)
        for k_ in range(5):
            r6.site("verify header-policy obligation %d" % (k_ + 1))
    dp = F.hir(DEC + "::DecodedHeaders::protected_header")
    if r6.anchor(dp, "DecodedHeaders::protected_header"):
        ms = [n for n in H.walk(H.root(dp)) if n.get("k") == "match" and n.get("src") == "normal"]
        if r6.require(len(ms) == 1, ("DecodedHeaders::protected_header", "shape"), "expected one match"):
            env2 = H.Env(dp)
            for arm in ms[0]["arms"]:
                k_ = H.pat_str(arm["pat"])
                oc = H.outcome(arm["body"])
                oo = H.origins(arm["body"], env2)
                r6.site("DecodedHeaders::protected_header arm %s → %s" % (k_, oc))
                if k_.startswith("Unprotected"):
                    r6.require(oc == "None", ("DecodedHeaders::protected_header", "Unprotected"), "an unprotected-only header set yields a protected header")
                elif k_.startswith("Both"):
                    r6.require(all(o[-1] == "protected" for o in oo if o[0] == "param"), ("DecodedHeaders::protected_header", "Both"), "Both{..} does not yield its protected member: %s" % sorted(map(str, oo)))
    r6.floor(9)

    # ------------------------------------------------------------------ R7 deny_unknown_fields
    r7 = R.rule("C11-R7", "T12", "JSON serialization containers reject unknown members (deny_unknown_fields)")
    for ty in (DEC + "::JwsSignature", DEC + "::General", DEC + "::Flatten"):
        a = F.ast_item(ty)
        if r7.anchor(a, ty):
            has = any("deny_unknown_fields" in x for x in a["attrs"])
            r7.site("%s attrs %s" % (L.short(ty), [x for x in a["attrs"] if "serde" in x]), a["span"])
            r7.require(has, (ty, "deny_unknown_fields"), "%s does not carry #[serde(deny_unknown_fields)]" % L.short(ty))
    r7.floor(3)


def _header_value(F, ty, present, tag):
    """a header struct value with exactly the members in `present` set (to opaque values), every other Option member None"""
    f = {}
    for fd in F.adt_fields(ty) or []:
        nm = fd["name"]
        if nm == "common":
            f[nm] = _header_value(F, JWTH, present, tag)
        elif nm == "custom":
            f[nm] = sym.V("Some", (sym.Sym(("param", tag + "_custom")),)) if "custom" in present else sym.V("None")
        else:
            f[nm] = sym.V("Some", (sym.Sym(("param", tag + "_" + nm)),)) if nm in present else sym.V("None")
    return sym.St(ty, f)


def _eval_bool(F, fn, args, opaque=None):
    try:
        ps = sym.Evaluator(F, opaque=opaque, inline_depth=5).explore(fn, args=args, max_paths=200)
    except (sym.Abort, sym.TooManyPaths) as e:
        return None, str(e)
    vals = {q.ret for q in ps if q.complete and isinstance(q.ret, bool)}
    if len(vals) == 1 and all(q.complete and isinstance(q.ret, bool) for q in ps):
        return vals.pop(), None
    return None, "not a single decided boolean: %s" % sorted(str(q.ret) for q in ps)[:3]


def _disjoint_rules(F, r4):
    # ---- is_disjoint, evaluated on concrete headers: with exactly one member f set in self and exactly one member g set in other the
    #      answer is (f != g), for every pair of members — whatever the expression looks like
    fields = [f["name"] for f in (F.adt_fields(JWTH) or [])]
    r4.require(len(fields) >= 12, (JWTH, "fields"), "JwtHeader has %d fields, expected at least the 12 confirmed" % len(fields))
    fn = JWTH + "::is_disjoint"
    if r4.anchor(F.hir(fn), fn):
        bad = 0
        for f in fields:
            for g in fields:
                v, why = _eval_bool(F, fn, [_header_value(F, JWTH, {f}, "s"), _header_value(F, JWTH, {g}, "o")])
                if v is None:
                    r4.fail((fn, "not-evaluable"), "JwtHeader::is_disjoint could not be evaluated on concrete headers: %s" % why)
                    bad += 1
                    break
                if f == g and v is not False:
                    bad += 1
                    r4.fail((fn, "field", f), "JwtHeader::is_disjoint does not compare field `%s` of self and other (both set → %s)" % (f, v))
                if f != g and v is not True:
                    bad += 1
                    r4.fail((fn, "has_duplicate"), "JwtHeader::is_disjoint reports a clash between different members (%s in self, %s in other)" % (f, g))
        v, why = _eval_bool(F, fn, [_header_value(F, JWTH, set(), "s"), _header_value(F, JWTH, set(fields), "o")])
        r4.require(v is True, (fn, "has_duplicate"), "JwtHeader::is_disjoint(empty, full) is not true")
        for f in fields:
            r4.site("JwtHeader::is_disjoint: `%s` set in both → false; set in one only → true" % f)
    # ---- JwtHeader::has: one arm per serde name
    a = F.ast_item(JWTH)
    fn = JWTH + "::has"
    h = F.hir(fn)
    if r4.anchor(h, fn) and r4.anchor(a, JWTH + " (ast)"):
        names = {}
        for f in a["fields"]:
            nm = f["name"]
            for at in f["attrs"]:
                m = re.search(r'rename\s*=\s*"([^"]+)"', at)
                if m:
                    nm = m.group(1)
            names[f["name"]] = nm
        # evaluated on concrete headers: with exactly member g set, has(name of f) is true iff f == g; an unregistered name is false
        allf = list(names)
        bad = 0
        for f, js in names.items():
            for g in allf + [None]:
                v, why = _eval_bool(F, fn, [_header_value(F, JWTH, {g} if g else set(), "s"), js])
                if v is None:
                    r4.fail((fn, "not-evaluable"), "JwtHeader::has could not be evaluated on a concrete header: %s" % why)
                    bad += 1
                    break
                if (g == f) != v:
                    bad += 1
                    if g == f:
                        r4.fail((fn, "arm", f), "JwtHeader::has(%r) is false although the header carries `%s` (parameter %r)" % (js, f, js))
                    else:
                        r4.fail((fn, "arm-body", f), "JwtHeader::has(%r) is true on a header that carries only `%s`" % (js, g))
                    break
            if bad:
                break
            r4.site("has(%r) ⇔ `%s` is set (checked against each of the %d members set alone, and none)" % (js, f, len(allf)))
        if not bad:
            v, why = _eval_bool(F, fn, [_header_value(F, JWTH, set(allf), "s"), "x-not-a-registered-name"])
            r4.require(v is False, (fn, "default"), "JwtHeader::has answers %s for a name that is not a registered header parameter" % v)
    # ---- JwsHeader::is_disjoint on concrete headers: own members (alg, b64), the common JwtHeader members, and the custom maps
    jfields = [f["name"] for f in (F.adt_fields(JWSH) or [])]
    fn = JWSH + "::is_disjoint"
    if r4.anchor(F.hir(fn), fn):
        r4.require(set(jfields) == {"common", "alg", "b64", "custom"}, (JWSH, "fields"),
                   "JwsHeader fields changed to %s: is_disjoint/has coverage must be re-established" % jfields)
        own = [f for f in jfields if f not in ("common", "custom")]
        allm = own + fields
        OPQ_ = r"JwsHeader::is_custom_disjoint$"
        for f in allm:
            for g in allm:
                v, why = _eval_bool(F, fn, [_header_value(F, JWSH, {f}, "s"), _header_value(F, JWSH, {g}, "o")])
                if v is None:
                    r4.fail((fn, "not-evaluable"), "JwsHeader::is_disjoint could not be evaluated on concrete headers: %s" % why)
                    break
                if f == g:
                    key = (fn, "field", f) if f in own else (fn, "common")
                    r4.require(v is False, key, "JwsHeader::is_disjoint does not compare `%s` of self and other (both set → %s)" % (f, v))
                else:
                    r4.require(v is True, (fn, "not-dup"), "JwsHeader::is_disjoint reports a clash between different members (%s / %s)" % (f, g))
        # the custom maps: the verdict of is_custom_disjoint is part of the conjunction
        try:
            ps = sym.Evaluator(F, opaque=OPQ_, inline_depth=5).explore(fn, args=[_header_value(F, JWSH, {"custom"}, "s"), _header_value(F, JWSH, {"custom"}, "o")])
        except (sym.Abort, sym.TooManyPaths):
            ps = []
        okc = bool(ps)
        for q in ps:
            cd = q.calls(OPQ_)
            if not (q.complete and len(cd) == 1):
                okc = False
                continue
            if q.succeeded(cd[0]) is False:
                okc = okc and q.ret is False
            elif q.succeeded(cd[0]) is True:
                okc = okc and q.ret is True
        r4.require(okc, (fn, "custom"), "JwsHeader::is_disjoint result does not include `self.is_custom_disjoint(other)`")
        r4.site("JwsHeader::is_disjoint: alg, b64 and every common member compared; custom maps through is_custom_disjoint: %s" % okc)
    # ---- JwsHeader::has
    fn = JWSH + "::has"
    h = F.hir(fn)
    if r4.anchor(h, fn):
        env = H.Env(h)
        m = H.find_first(h, lambda n: n.get("k") == "match" and n.get("src") == "normal")
        arms = {H.pat_str(a["pat"]): a for a in (m["arms"] if m else [])}
        for nm in ("alg", "b64"):
            a = arms.get(repr(nm))
            if not r4.require(a is not None, (fn, "arm", nm), "JwsHeader::has has no arm for %r" % nm):
                continue
            accs = {x.rsplit("::", 1)[-1] for x in H.called_fns(a["body"])}
            r4.site("JwsHeader::has(%r) → %s" % (nm, sorted(accs)), a["body"].get("sp"))
            r4.require(nm in accs and "is_some" in accs, (fn, "arm-body", nm), "JwsHeader::has(%r) does not test `%s` for presence" % (nm, nm))
        d = arms.get("_")
        if r4.require(d is not None, (fn, "default"), "JwsHeader::has has no default arm"):
            fns = H.called_fns(d["body"])
            r4.require(JWTH + "::has" in fns, (fn, "default", "common"), "JwsHeader::has default arm does not consult common.has(claim)")
            r4.require(any(f.endswith("::get") or f.endswith("::contains_key") for f in fns), (fn, "default", "custom"), "JwsHeader::has default arm does not consult the custom parameters")
            djs = H.disjuncts(d["body"])
            r4.require(len(djs) >= 2, (fn, "default", "or"), "JwsHeader::has default arm is not a disjunction of common and custom lookups")
            r4.site("JwsHeader::has(_) → common.has || custom.get", d["body"].get("sp"))
    # ---- is_custom_disjoint: false exactly when a key of one custom map is contained in the other (abstract evaluation)
    fn = JWSH + "::is_custom_disjoint"
    if r4.anchor(F.hir(fn), fn):
        tab = SR.Table(F, fn, rule=r4)
        SC, OC = SR.fld("custom"), SR.fld("custom", base=SR.param("other"))
        shared_false = False
        for q in tab.paths:
            shared = None
            for (a, c, _, _) in q.decisions:
                if a[0] == "truth" and isinstance(a[1], tuple) and a[1][:1] == ("call",) and a[1][1].endswith("contains_key"):
                    args = a[1][2]
                    if (SR.derives(args[0], OC) and SR.derives(args[1], SC)) or (SR.derives(args[0], SC) and SR.derives(args[1], OC)):
                        shared = c
            if q.ret is False:
                r4.require(shared is True, (fn, "shared-key"), "is_custom_disjoint returns false without a custom key being contained in both maps — path: %s" % q.describe()[:200])
                shared_false = True
            elif q.ret is True:
                r4.require(shared is not True, (fn, "shared-key"), "is_custom_disjoint does not return false when a key of self.custom is contained in other.custom")
        r4.site("is_custom_disjoint: shared key → false; otherwise true")
        r4.require(shared_false or not tab.paths, (fn, "iter"), "is_custom_disjoint never compares the custom keys of the two headers")
    # ---- validate_disjoint on its decision table: both headers present → Ok exactly when is_disjoint(protected, unprotected) is true;
    #      one absent → Ok
    fn = SER + "::validate_disjoint"
    if r4.anchor(F.hir(fn), fn):
        tab = SR.Table(F, fn, opaque=r"JwsHeader::is_disjoint$", rule=r4)
        PRO, UNP = SR.param("protected"), SR.param("unprotected")
        rows = set()
        for q in tab.paths:
            both = q.variant.get(PRO) == "Some" and q.variant.get(UNP) == "Some"
            dj = q.calls(r"JwsHeader::is_disjoint$")
            ok = SR.is_success(q.ret) and not SR.is_failure(q.ret)
            if both:
                good = len(dj) == 1 and {sym.term(dj[0].args[0]), sym.term(dj[0].args[1])} == {("payload", PRO, "Some", 0), ("payload", UNP, "Some", 0)}
                if not r4.require(good, (fn, "both"), "validate_disjoint does not call JwsHeader::is_disjoint(protected, unprotected) when both headers are present"):
                    continue
                v = q.succeeded(dj[0])
                if ok:
                    r4.require(v is True, (fn, "ok-cond"), "validate_disjoint returns Ok without is_disjoint being true")
                    rows.add("both-ok")
                else:
                    r4.require(v is False, (fn, "err-cond"), "validate_disjoint's error exit is not the !is_disjoint branch")
                    rows.add("both-err")
            else:
                r4.require(ok or (q.variant.get(PRO) is None or q.variant.get(UNP) is None), (fn, "table"), "validate_disjoint rejects although one header is absent")
                if ok:
                    rows.add("one-absent-ok")
        r4.site("validate_disjoint rows: %s" % sorted(rows))
        r4.require({"both-ok", "both-err", "one-absent-ok"} <= rows or not tab.paths, (fn, "table"), "validate_disjoint does not show the rows (both, disjoint → Ok), (both, clash → Err), (one absent → Ok): %s" % sorted(rows))
    r4.floor(30)


def _dup_pairs(h, env, r4, fn):
    """fields f for which a disjunct `self.f.is_some() && other.f.is_some()` exists in the definition of has_duplicate"""
    covered = set()
    init = None
    for n in H.walk(H.root(h)):
        if n.get("k") == "let" and any(b[0] == "has_duplicate" for b in H.pat_bindings(n["pat"])):
            init = n["init"]
    if not r4.require(init is not None, (fn, "has_duplicate"), "`has_duplicate` definition not found"):
        return covered
    for dj in H.disjuncts(init):
        cs = H.conjuncts(dj)
        if len(cs) != 2:
            r4.fail((fn, "disjunct-shape"), "a disjunct of has_duplicate is not a pair of presence tests", dj.get("sp"))
            continue
        sides = {}
        for c in cs:
            c = H.strip(c)
            if c.get("k") != "mcall" or not (c.get("fn") or "").endswith("Option::is_some"):
                r4.fail((fn, "conjunct-shape"), "a conjunct of has_duplicate is not `<field>.is_some()`", c.get("sp"))
                continue
            recv = c["recv"]
            oo = H.origins(recv, env, adapters=None)
            for o in oo:
                if o[0] == "param" and len(o) >= 3:
                    sides[o[1]] = o[2]
                elif o[0] == "call":
                    # accessor call self.alg()
                    inner = H.strip(recv)
                    who = H.origins(H.call_args(inner)[0], env)
                    for w in who:
                        if w[0] == "param":
                            sides[w[1]] = o[1].rsplit("::", 1)[-1]
        if set(sides) == {"self", "other"} and sides["self"] == sides["other"]:
            covered.add(sides["self"])
            r4.site("%s: duplicate test for field %s" % (L.short(fn), sides["self"]), dj.get("sp"))
        else:
            r4.fail((fn, "pair-mismatch", str(sorted(sides.items()))), "%s: a disjunct compares different fields or the same header twice: %s" % (L.short(fn), sorted(sides.items())), dj.get("sp"))
    return covered


def _returns_not_dup(h, env, r4, fn):
    ok = False
    for n, _ in H.exits(h):
        inner, neg = H.negated(n)
        inner = H.strip(inner)
        if neg and inner.get("k") == "path" and inner.get("res", {}).get("local") == "has_duplicate":
            ok = True
    r4.require(ok, (fn, "returns"), "%s does not return `!has_duplicate`" % L.short(fn))
