"""C11 — JOSE header policy (crit, b64, disjointness, alg) is enforced fail-closed."""
import re

import hir as H
import mir as M
import rulelib as L
import spec_tables as S

CRATES = ["identity_jose"]
SER = "identity_jose::jwu::serde"
JWSH = "identity_jose::jws::header::JwsHeader"
JWTH = "identity_jose::jwt::header::JwtHeader"
ENC = "identity_jose::jws::encoding::encoder"
UTL = "identity_jose::jws::encoding::utils"
DEC = "identity_jose::jws::decoder"


def roots_and_accessors(expr, env):
    """(parameters the expression may depend on, last path segments of every fn called/mentioned under it)"""
    accs = {f.rsplit("::", 1)[-1] for f in H.called_fns(expr)}
    return H.param_roots(expr, env), accs


def run(F, R, tier):
    R.undecided += ["none of substance: the statement is a decision table and the rules extract it; JSON-level duplicate member names inside one header are serde's"]

    # ------------------------------------------------------------------ R1 conjunction + every encoder/decoder validates
    r1 = R.rule("C11-R1", "T2", "validate_jws_headers = validate_disjoint ∧ validate_crit ∧ validate_b64 on (protected, unprotected); all encoders and the decoder pass through it")
    vfn = SER + "::validate_jws_headers"
    L.require_tried_before_success(r1, F, vfn, [
        ("validate_disjoint", SER + "::validate_disjoint"), ("validate_crit", SER + "::validate_crit"), ("validate_b64", SER + "::validate_b64")])
    h = F.hir(vfn)
    if h:
        env = H.Env(h)
        for sub in ("validate_disjoint", "validate_crit", "validate_b64"):
            L.arg_origin_check(r1, F, vfn, SER + "::" + sub, 0, [("param", "protected")], sub + ".protected", env, h)
            L.arg_origin_check(r1, F, vfn, SER + "::" + sub, 1, [("param", "unprotected")], sub + ".unprotected", env, h)
    # wrappers and constructors: fixpoint of "validated" functions
    validated = {vfn}
    wrappers = [ENC + "::CompactJwsEncoder::validate_header", UTL + "::validate_headers_json_serialization"]
    for w in wrappers:
        succ = L.require_tried_before_success(r1, F, w, [("validate_jws_headers", vfn)], delegate=vfn)
        validated.add(w)
    ctors = [
        (ENC + "::CompactJwsEncoder::new_with_options", [("param", "protected_header")]),
        (ENC + "::FlattenedJwsEncoder::new", [("param", "recipient")]),
        (ENC + "::GeneralJwsEncoder::new", [("param", "first_recipient")]),
        (ENC + "::GeneralJwsEncoder::add_recipient", [("param", "recipient")]),
        (DEC + "::Decoder::decode_signature", None),
    ]
    vpat = list(validated)
    for fn, allowed in ctors:
        L.require_tried_before_success(r1, F, fn, [("validate headers", vpat)])
        if allowed is not None:
            L.arg_origin_check(r1, F, fn, vpat, 0, allowed, "validated-header")
    # the decoder validates the headers it decoded from this signature entry
    dh = F.hir(DEC + "::Decoder::decode_signature")
    if dh:
        env = H.Env(dh)
        for c in H.calls(dh, vfn):
            o0 = H.origins(c["args"][0], env, extra=re.compile(r"decode_b64_json$"))
            o1 = H.origins(c["args"][1], env)
            r1.require(any(o[:3] == ("param", "jws_signature", "protected") for o in o0), (DEC, "decode_signature", "validated-protected"),
                       "decoder validates a protected header that is not the one decoded from jws_signature.protected: %s" % sorted(map(str, o0)))
            r1.require(any(o[:3] == ("param", "jws_signature", "header") for o in o1), (DEC, "decode_signature", "validated-unprotected"),
                       "decoder validates an unprotected header that is not jws_signature.header: %s" % sorted(map(str, o1)))
    # all callers of validate_jws_headers are known
    known = set(wrappers) | {DEC + "::Decoder::decode_signature"}
    for (p, bi, t) in F.callers(vfn):
        r1.site("caller of validate_jws_headers: %s" % L.short(p), t["sp"])
    r1.floor(20)

    # ------------------------------------------------------------------ R2 validate_crit
    r2 = R.rule("C11-R2", "T4+T7", "validate_crit: unprotected crit → Err; empty → Err; each value: predefined → Err, not permitted → Err, absent → Err; tables agree with RFC 7515/7516/7518")
    cfn = SER + "::validate_crit"
    h = F.hir(cfn)
    if r2.anchor(h, cfn):
        env = H.Env(h)
        tree, infos = L.exit_infos(h)
        top = L.block_guards(H.root(h))
        found = {}
        for cond, oc, node in top:
            roots, accs = roots_and_accessors(cond, env)
            lits = H.literals(cond)
            if "unprotected" in roots and "has_claim" in accs and "crit" in lits:
                found["unprotected-crit"] = (oc, node)
            elif "is_empty" in accs and ("protected" in roots):
                found["empty-crit"] = (oc, node)
        for name in ("unprotected-crit", "empty-crit"):
            if name in found:
                r2.site("guard %s → %s" % (name, found[name][0]), found[name][1]["sp"])
                r2.require(found[name][0].startswith("Err("), (cfn, name, "outcome"), "guard `%s` does not return an error" % name)
            else:
                r2.fail((cfn, name, "missing"), "validate_crit: the `%s` rejection is missing from the function's top-level guard sequence" % name)
        # `values` comes from the protected header's crit
        loops = L.for_loops(h)
        if r2.require(len(loops) == 1, (cfn, "loop"), "expected exactly one loop over the crit values, found %d" % len(loops)):
            it, pat, body, _ = loops[0]
            io = H.origins(it, env)
            roots, accs = roots_and_accessors(it, env)
            # values ← protected.and_then(|h| h.common().crit())
            crit_src = [n for n in H.walk(H.root(h)) if n.get("k") == "let" and any(b[0] == "values" for b in H.pat_bindings(n["pat"]))]
            ok_src = False
            for lt in crit_src:
                rr, aa = roots_and_accessors(lt["init"], env)
                if "protected" in rr and "crit" in aa:
                    ok_src = True
            r2.require(ok_src and "protected" in roots, (cfn, "values-source"), "the crit values iterated are not the protected header's crit (roots %s)" % sorted(roots))
            guards = {}
            for cond, oc, node in L.block_guards(body):
                inner, neg = H.negated(cond)
                fns = H.called_fns(inner)
                consts = {x.get("res", {}).get("def") for x in H.walk(inner) if x.get("k") == "path"}
                if SER + "::PREDEFINED" in consts and any(f.endswith("::contains") for f in fns):
                    guards["predefined"] = (neg, oc, node)
                elif SER + "::PERMITTED_CRITS" in consts and any(f.endswith("::contains") for f in fns):
                    guards["permitted"] = (neg, oc, node)
                else:
                    # `exists` flag
                    oo = H.origins(inner, env)
                    rr, aa = roots_and_accessors(inner, env)
                    defs_ = [d for bid, ds in env.defs.items() if env.names.get(bid) == "exists" for d in ds]
                    for (e, _p) in defs_:
                        rr2, aa2 = roots_and_accessors(e, env)
                        rr |= rr2
                        aa |= aa2
                        for cl in H.walk(e):
                            if cl.get("k") == "closure":
                                rr3, aa3 = roots_and_accessors(cl["body"], env)
                                aa |= aa3
                    if "has_claim" in aa:
                        guards["present"] = (neg, oc, node, rr)
            want = {"predefined": False, "permitted": True, "present": True}
            for g, wneg in want.items():
                if g not in guards:
                    r2.fail((cfn, g, "missing"), "validate_crit: per-value check `%s` is missing from the loop body's guard sequence" % g)
                    continue
                r2.site("per-value guard %s (negated=%s) → %s" % (g, guards[g][0], guards[g][1]), guards[g][2]["sp"])
                r2.require(guards[g][0] == wneg, (cfn, g, "polarity"), "per-value check `%s` has the wrong polarity" % g)
                r2.require(guards[g][1].startswith("Err("), (cfn, g, "outcome"), "per-value check `%s` does not return an error" % g)
            if "present" in guards:
                rr = guards["present"][3]
                r2.require({"protected", "unprotected"} <= rr or "protected" in rr, (cfn, "present", "headers"), "presence check does not consult the headers (roots %s)" % sorted(rr))
        # no early Ok
        for e in infos:
            if L.is_success_exit(e):
                r2.require(not any(c[0] in ("if",) and c[2] is True for c in e.conds) and e.in_closure is None and not any(c[0] == "loop" for c in e.conds),
                           (cfn, "early-ok"), "validate_crit has a conditional/early success exit", e.node.get("sp"))
        # tables
        pre = L.const_str_array(F, SER + "::PREDEFINED")
        per = L.const_str_array(F, SER + "::PERMITTED_CRITS")
        if r2.anchor(pre, "PREDEFINED") and r2.anchor(per, "PERMITTED_CRITS"):
            r2.site("PREDEFINED = %s" % pre)
            r2.site("PERMITTED_CRITS = %s" % per)
            for name in S.JOSE_REGISTERED_HEADER_PARAMS:
                rejected = (name in pre) or (name not in per)
                r2.require(rejected, ("tables", "registered-accepted", name), "registered header parameter %r would be accepted in crit" % name)
            r2.require(not (set(per) & set(S.JOSE_REGISTERED_HEADER_PARAMS)), ("tables", "permitted-registered"), "PERMITTED_CRITS contains a registered name")
            r2.require(set(per) <= set(S.IMPLEMENTED_CRIT_EXTENSIONS), ("tables", "unimplemented-permitted"),
                       "PERMITTED_CRITS %s contains an extension the library does not implement (implemented: %s)" % (per, S.IMPLEMENTED_CRIT_EXTENSIONS))
    r2.floor(7)

    # ------------------------------------------------------------------ R3 validate_b64
    r3 = R.rule("C11-R3", "T4", "validate_b64: unprotected b64 → Err; (b64, no crit) → Err; b64 present ⇒ crit lists it (composition with R2 and PERMITTED_CRITS == {b64})")
    bfn = SER + "::validate_b64"
    h = F.hir(bfn)
    if r3.anchor(h, bfn):
        env = H.Env(h)
        top = L.block_guards(H.root(h))
        okg = False
        for cond, oc, node in top:
            roots, accs = roots_and_accessors(cond, env)
            inner, neg = H.negated(cond)
            if "unprotected" in roots and "b64" in accs and "is_some" in accs and not neg:
                okg = True
                r3.site("guard unprotected b64 → %s" % oc, node["sp"])
                r3.require(oc.startswith("Err("), (bfn, "unprotected-b64", "outcome"), "unprotected b64 guard does not return an error")
        r3.require(okg, (bfn, "unprotected-b64", "missing"), "validate_b64: rejection of an unprotected b64 parameter is missing")
        m = H.find_first(h, lambda n: n.get("k") == "match" and n.get("src") == "normal" and H.strip(n["scrut"]).get("k") == "tup")
        if r3.require(m is not None, (bfn, "table"), "validate_b64: the (b64, crit) decision table was not found"):
            sc = H.strip(m["scrut"])
            r0, a0 = set(), set()
            for i, e in enumerate(sc["es"]):
                # follow the let
                oo = H.origins(e, env)
                pass
            names = []
            for e in sc["es"]:
                e = H.strip(e)
                names.append(e.get("res", {}).get("local"))
            srcs = {}
            for nm in names:
                for bid, ds in env.defs.items():
                    if env.names.get(bid) == nm:
                        for (e, _p) in ds:
                            rr, aa = roots_and_accessors(e, env)
                            for cl in H.walk(e):
                                if cl.get("k") == "closure":
                                    aa |= roots_and_accessors(cl["body"], env)[1]
                            srcs[nm] = (rr, aa)
            r3.require(len(names) == 2 and names[0] in srcs and "protected" in srcs[names[0]][0] and "b64" in srcs[names[0]][1],
                       (bfn, "scrut-b64"), "first scrutinee is not the protected header's b64 (%s)" % (srcs.get(names[0] if names else None),))
            r3.require(len(names) == 2 and names[1] in srcs and "protected" in srcs[names[1]][0] and "crit" in srcs[names[1]][1],
                       (bfn, "scrut-crit"), "second scrutinee is not the protected header's crit (%s)" % (srcs.get(names[1] if len(names) > 1 else None),))
            table = []
            for arm in m["arms"]:
                table.append((H.pat_str(arm["pat"]), arm.get("guard") is not None, H.outcome(arm["body"])))
                r3.site("row %s%s → %s" % (table[-1][0], " if <guard>" if table[-1][1] else "", table[-1][2]), arm["body"].get("sp"))
            # (Some, None) must be Err and must come before any catch-all
            idx_err = next((i for i, t in enumerate(table) if t[0] == "(Some(_), None)" and not t[1]), None)
            idx_wild = next((i for i, t in enumerate(table) if t[0] in ("_", "(_, _)", "(Some(_), _)", "(_, None)") and not t[1]), len(table))
            r3.require(idx_err is not None and table[idx_err][2].startswith("Err(") and idx_err < idx_wild, (bfn, "row", "(Some,None)"),
                       "row (b64 present, crit absent) does not yield an error (table %s)" % table)
            # the guarded Ok row tests membership of the literal "b64"
            for arm in m["arms"]:
                if arm.get("guard") is not None:
                    r3.require("b64" in H.literals(arm["guard"]), (bfn, "row", "guard-literal"), "guarded row does not test for the \"b64\" value")
            # rows left to `_`: (Some, Some(values without b64)) → Ok in the code; sound only because validate_crit rejects every
            # crit value ∉ PERMITTED_CRITS and PERMITTED_CRITS == ["b64"]
            per = L.const_str_array(F, SER + "::PERMITTED_CRITS")
            r3.require(per == ["b64"], (bfn, "composition", "PERMITTED_CRITS"),
                       "validate_b64 accepts (b64 present, crit not listing b64) through its `_` row; this is only unreachable while PERMITTED_CRITS == [\"b64\"], found %s" % per)
            r3.exception("validate_b64 `_ => Ok` row for (Some, Some(values∌b64))", "checked", "unreachable: C11-R1 (validate_crit ∧ validate_b64 both required) ∧ C11-R2 (values ⊆ PERMITTED_CRITS) ∧ PERMITTED_CRITS == [b64], all verified in this run")
    r3.floor(4)

    # ------------------------------------------------------------------ R4 disjointness
    r4 = R.rule("C11-R4", "T5", "is_disjoint / has cover every header field; custom parameters compared by key")
    _disjoint_rules(F, r4)

    # ------------------------------------------------------------------ R5 add_recipient b64 consistency
    r5 = R.rule("C11-R5", "T2+T6", "GeneralJwsEncoder::add_recipient: extract_b64(recipient.protected) != self.b64 → Err dominates success")
    afn = ENC + "::GeneralJwsEncoder::add_recipient"
    h = F.hir(afn)
    if r5.anchor(h, afn):
        env = H.Env(h)
        tree, infos = L.exit_infos(h)
        for e in infos:
            if not L.is_success_exit(e):
                continue
            ok = False
            for c in e.conds:
                if c[0] != "if":
                    continue
                inner, neg = H.negated(c[1])
                inner = H.strip(inner)
                if inner.get("k") == "binary" and inner.get("op") in ("Ne", "Eq"):
                    ol = H.origins(inner["l"], env) | H.origins(inner["r"], env)
                    has_new = any(o[0] == "call" and o[1].endswith("extract_b64") for o in ol)
                    has_old = any(o[:3] == ("param", "self", "b64") for o in ol)
                    # holds when: (a != b) is False, or (a == b) is True
                    equal_established = (inner["op"] == "Ne") != (c[2] != neg) if False else ((inner["op"] == "Ne" and (c[2] != neg) is False) or (inner["op"] == "Eq" and (c[2] != neg) is True))
                    if has_new and has_old and equal_established:
                        ok = True
                        r5.site("success exit guarded by new_b64 == self.b64", inner["sp"])
            r5.require(ok, (afn, "b64-consistency"), "add_recipient can succeed without `extract_b64(recipient.protected) == self.b64` having been established", e.node.get("sp"))
        L.arg_origin_check(r5, F, afn, SER + "::extract_b64", 0, [("param", "recipient", "protected")], "extract_b64-arg", env, h)
        # GeneralJwsEncoder::new records b64 from the first recipient's protected header
        nfn = ENC + "::GeneralJwsEncoder::new"
        nh = F.hir(nfn)
        if r5.anchor(nh, nfn):
            nenv = H.Env(nh)
            lits = [s for s in H.struct_lits(nh) if s.get("ty", "").endswith("GeneralJwsEncoder")]
            for s in lits:
                for f in s["fields"]:
                    if f["name"] == "b64":
                        oo = H.origins(f["e"], nenv)
                        r5.site("GeneralJwsEncoder{b64: %s}" % sorted(map(str, oo)), f["e"].get("sp"))
                        r5.require(all(o[0] == "call" and o[1].endswith("extract_b64") for o in oo), (nfn, "b64-field"), "b64 recorded by GeneralJwsEncoder::new is not extract_b64(first_recipient.protected)")
            L.arg_origin_check(r5, F, nfn, SER + "::extract_b64", 0, [("param", "first_recipient", "protected")], "extract_b64-arg", nenv, nh)
        # in add_recipient the b64 field of the result is carried over from self
        for s in H.struct_lits(h):
            if s.get("ty", "").endswith("GeneralJwsEncoder"):
                for f in s["fields"]:
                    if f["name"] == "b64":
                        oo = H.origins(f["e"], env)
                        r5.require(all(o[:3] == ("param", "self", "b64") for o in oo), (afn, "b64-carried"), "add_recipient does not carry self.b64 over: %s" % sorted(map(str, oo)))
                        r5.site("add_recipient carries b64 from self", f["e"].get("sp"))
    r5.floor(5)

    # ------------------------------------------------------------------ R6 alg required at verification
    r6 = R.rule("C11-R6", "T4", "JwsValidationItem::verify: protected header absent → MissingHeader; alg absent → ProtectedHeaderWithoutAlg; both precede verification")
    vfy = DEC + "::JwsValidationItem::verify"
    h = F.hir(vfy)
    if r6.anchor(h, vfy):
        env = H.Env(h)
        tree, infos = L.exit_infos(h)
        for e in infos:
            if not L.is_success_exit(e):
                continue
            tried = [H.fn_name(c) or "" for c in e.tried]
            has_alg = any(t.endswith("JwsHeader::alg") for t in tried)
            r6.site("success exit after alg()?", e.node.get("sp"), tried=[L.short(t) for t in tried if t][:8])
            r6.require(has_alg, (vfy, "alg-required"), "verify() can succeed without `alg` having been read (and required) from the protected header")
        allv = {H.variant_name(x.get("res", {})) for x in H.walk(H.root(h)) if x.get("k") == "path"}
        r6.require("ProtectedHeaderWithoutAlg" in allv, (vfy, "error-variant"), "ProtectedHeaderWithoutAlg is not produced by verify()")
        # alg receiver: the protected header of the decoded header set
        for c in H.calls(h, JWSH + "::alg"):
            oo = H.origins(H.call_args(c)[0], env)
            r6.site("alg() receiver ← %s" % sorted(map(str, oo)), c["sp"])
            ok = bool(oo) and all(o[:3] == ("param", "self", "headers") and len(o) > 3 and o[3] in ("Protected", "protected") for o in oo)
            r6.require(ok, (vfy, "alg-source"), "alg is read from %s, not from the protected header" % sorted(map(str, oo)))
        # the algorithm handed to the key check and to the verifier derives from the protected header only
        ACC_ = re.compile(r"JwsHeader::(alg|b64)$|JwsAlgorithm::name$")
        n_alg = 0
        for s_ in H.struct_lits(h):
            if s_.get("ty", "").endswith("::VerificationInput"):
                for f in s_["fields"]:
                    if f["name"] == "alg":
                        oo = H.origins(f["e"], env, accessors=ACC_)
                        n_alg += 1
                        r6.site("VerificationInput.alg ← %s" % sorted(map(str, oo)), f["e"].get("sp"))
                        r6.require(bool(oo) and all(o[:3] == ("param", "self", "headers") and len(o) > 3 and o[3] in ("Protected", "protected") and o[-1] == "alg" for o in oo),
                                   (vfy, "alg-flow"), "the alg given to the verifier can come from outside the protected header: %s" % sorted(map(str, oo)))
        r6.require(n_alg == 1, (vfy, "alg-flow", "site"), "VerificationInput literal with an alg field not found in verify()")
        # the header-set table: Unprotected-only → MissingHeader
        ms = [n for n in H.walk(H.root(h)) if n.get("k") == "match" and n.get("src") == "normal"
              and any(o[:3] == ("param", "self", "headers") for o in H.origins(n["scrut"], env))]
        if r6.require(len(ms) == 1, (vfy, "header-table"), "the match over the decoded header set was not found"):
            t = L.decision_table(ms[0])
            for k_, v_ in t.items():
                r6.site("verify: headers %s → %s" % (k_, v_))
            unp = [v_ for k_, v_ in t.items() if k_.startswith("Unprotected")]
            r6.require(unp == ["Err(MissingHeader)"], (vfy, "unprotected-only"), "a token with only an unprotected header is not rejected with MissingHeader (table %s)" % t)
            r6.require(not any(k_ in ("_",) for k_ in t), (vfy, "wildcard"), "the header-set table has a wildcard arm")
    dp = F.hir(DEC + "::DecodedHeaders::protected_header")
    if r6.anchor(dp, "DecodedHeaders::protected_header"):
        ms = [n for n in H.walk(H.root(dp)) if n.get("k") == "match" and n.get("src") == "normal"]
        if r6.require(len(ms) == 1, ("DecodedHeaders::protected_header", "shape"), "expected one match"):
            env2 = H.Env(dp)
            for arm in ms[0]["arms"]:
                k_ = H.pat_str(arm["pat"])
                oc = H.outcome(arm["body"])
                oo = H.origins(arm["body"], env2)
                r6.site("DecodedHeaders::protected_header arm %s → %s" % (k_, oc))
                if k_.startswith("Unprotected"):
                    r6.require(oc == "None", ("DecodedHeaders::protected_header", "Unprotected"), "an unprotected-only header set yields a protected header")
                elif k_.startswith("Both"):
                    r6.require(all(o[-1] == "protected" for o in oo if o[0] == "param"), ("DecodedHeaders::protected_header", "Both"), "Both{..} does not yield its protected member: %s" % sorted(map(str, oo)))
    r6.floor(9)

    # ------------------------------------------------------------------ R7 deny_unknown_fields
    r7 = R.rule("C11-R7", "T12", "JSON serialization containers reject unknown members (deny_unknown_fields)")
    for ty in (DEC + "::JwsSignature", DEC + "::General", DEC + "::Flatten"):
        a = F.ast_item(ty)
        if r7.anchor(a, ty):
            has = any("deny_unknown_fields" in x for x in a["attrs"])
            r7.site("%s attrs %s" % (L.short(ty), [x for x in a["attrs"] if "serde" in x]), a["span"])
            r7.require(has, (ty, "deny_unknown_fields"), "%s does not carry #[serde(deny_unknown_fields)]" % L.short(ty))
    r7.floor(3)


def _disjoint_rules(F, r4):
    # ---- JwtHeader::is_disjoint: one `self.f.is_some() && other.f.is_some()` disjunct per field
    fields = [f["name"] for f in (F.adt_fields(JWTH) or [])]
    r4.require(len(fields) >= 12, (JWTH, "fields"), "JwtHeader has %d fields, expected at least the 12 confirmed" % len(fields))
    fn = JWTH + "::is_disjoint"
    h = F.hir(fn)
    if r4.anchor(h, fn):
        env = H.Env(h)
        covered = _dup_pairs(h, env, r4, fn)
        for f in fields:
            r4.require(f in covered, (fn, "field", f), "JwtHeader::is_disjoint does not compare field `%s` of self and other" % f)
        _returns_not_dup(h, env, r4, fn)
    # ---- JwtHeader::has: one arm per serde name
    a = F.ast_item(JWTH)
    fn = JWTH + "::has"
    h = F.hir(fn)
    if r4.anchor(h, fn) and r4.anchor(a, JWTH + " (ast)"):
        names = {}
        for f in a["fields"]:
            nm = f["name"]
            for at in f["attrs"]:
                m = re.search(r'rename\s*=\s*"([^"]+)"', at)
                if m:
                    nm = m.group(1)
            names[f["name"]] = nm
        m = H.find_first(h, lambda n: n.get("k") == "match" and n.get("src") == "normal")
        arms = {}
        if m:
            env = H.Env(h)
            for arm in m["arms"]:
                key = H.pat_str(arm["pat"])
                accs = {x.rsplit("::", 1)[-1] for x in H.called_fns(arm["body"])}
                flds = {o[2] for o in H.origins(arm["body"], env) if o[:2] == ("param", "self") and len(o) > 2}
                arms[key] = (accs, flds, arm)
        for f, js in names.items():
            k = repr(js)
            if k not in arms:
                r4.fail((fn, "arm", f), "JwtHeader::has has no arm for the header parameter %r (field %s)" % (js, f))
                continue
            accs, flds, arm = arms[k]
            r4.site("has(%r) → %s" % (js, sorted(accs)), arm["body"].get("sp"))
            r4.require((f in accs or f in flds) and "is_some" in accs, (fn, "arm-body", f), "JwtHeader::has(%r) does not test field `%s` for presence (calls %s)" % (js, f, sorted(accs)))
        if "_" in arms:
            lits = H.literals(arms["_"][2]["body"])
            r4.require(lits == [False], (fn, "default"), "JwtHeader::has default arm is not `false`")
    # ---- JwsHeader::is_disjoint
    fn = JWSH + "::is_disjoint"
    h = F.hir(fn)
    jfields = [f["name"] for f in (F.adt_fields(JWSH) or [])]
    if r4.anchor(h, fn):
        env = H.Env(h)
        covered = _dup_pairs(h, env, r4, fn)
        for f in ("alg", "b64"):
            r4.require(f in covered, (fn, "field", f), "JwsHeader::is_disjoint does not compare `%s` of self and other" % f)
        r4.require(set(jfields) == {"common", "alg", "b64", "custom"}, (JWSH, "fields"),
                   "JwsHeader fields changed to %s: is_disjoint/has coverage must be re-established" % jfields)
        tails = [n for n, _ in H.exits(h)]
        ok_common = ok_custom = ok_not = False
        for t in tails:
            for cj in H.conjuncts(t):
                inner, neg = H.negated(cj)
                inner = H.strip(inner)
                if neg and inner.get("k") == "path" and inner.get("res", {}).get("local") == "has_duplicate":
                    ok_not = True
                if inner.get("k") in ("mcall", "call") and not neg:
                    nm = H.fn_name(inner) or ""
                    args = H.call_args(inner)
                    if nm == JWTH + "::is_disjoint":
                        o0 = H.origins(args[0], env)
                        o1 = H.origins(args[1], env, extra=re.compile(r"JoseHeader::common$|JwsHeader as .*JoseHeader>::common$"))
                        ok_common = any(o[:3] == ("param", "self", "common") for o in o0) and any(o[:2] == ("param", "other") for o in o1)
                        r4.site("JwsHeader::is_disjoint ∧ common.is_disjoint(other.common)", inner["sp"])
                    if nm == JWSH + "::is_custom_disjoint":
                        o0 = H.origins(args[0], env)
                        o1 = H.origins(args[1], env)
                        ok_custom = any(o[:2] == ("param", "self") for o in o0) and any(o[:2] == ("param", "other") for o in o1)
                        r4.site("JwsHeader::is_disjoint ∧ is_custom_disjoint(other)", inner["sp"])
        r4.require(ok_not, (fn, "not-dup"), "JwsHeader::is_disjoint result does not include `!has_duplicate`")
        r4.require(ok_common, (fn, "common"), "JwsHeader::is_disjoint result does not include `self.common.is_disjoint(other.common())`")
        r4.require(ok_custom, (fn, "custom"), "JwsHeader::is_disjoint result does not include `self.is_custom_disjoint(other)`")
    # ---- JwsHeader::has
    fn = JWSH + "::has"
    h = F.hir(fn)
    if r4.anchor(h, fn):
        env = H.Env(h)
        m = H.find_first(h, lambda n: n.get("k") == "match" and n.get("src") == "normal")
        arms = {H.pat_str(a["pat"]): a for a in (m["arms"] if m else [])}
        for nm in ("alg", "b64"):
            a = arms.get(repr(nm))
            if not r4.require(a is not None, (fn, "arm", nm), "JwsHeader::has has no arm for %r" % nm):
                continue
            accs = {x.rsplit("::", 1)[-1] for x in H.called_fns(a["body"])}
            r4.site("JwsHeader::has(%r) → %s" % (nm, sorted(accs)), a["body"].get("sp"))
            r4.require(nm in accs and "is_some" in accs, (fn, "arm-body", nm), "JwsHeader::has(%r) does not test `%s` for presence" % (nm, nm))
        d = arms.get("_")
        if r4.require(d is not None, (fn, "default"), "JwsHeader::has has no default arm"):
            fns = H.called_fns(d["body"])
            r4.require(JWTH + "::has" in fns, (fn, "default", "common"), "JwsHeader::has default arm does not consult common.has(claim)")
            r4.require(any(f.endswith("::get") or f.endswith("::contains_key") for f in fns), (fn, "default", "custom"), "JwsHeader::has default arm does not consult the custom parameters")
            djs = H.disjuncts(d["body"])
            r4.require(len(djs) >= 2, (fn, "default", "or"), "JwsHeader::has default arm is not a disjunction of common and custom lookups")
            r4.site("JwsHeader::has(_) → common.has || custom.get", d["body"].get("sp"))
    # ---- is_custom_disjoint
    fn = JWSH + "::is_custom_disjoint"
    h = F.hir(fn)
    if r4.anchor(h, fn):
        env = H.Env(h)
        loops = L.for_loops(h)
        if r4.require(len(loops) == 1, (fn, "loop"), "expected one loop over the custom keys"):
            it, pat, body, _ = loops[0]
            gs = L.block_guards(body)
            ok = False
            for cond, oc, node in gs:
                inner, neg = H.negated(cond)
                if any(f.endswith("::contains_key") for f in H.called_fns(inner)) and not neg:
                    lits = H.literals(node["then"])
                    ok = lits == [False]
                    r4.site("is_custom_disjoint: shared key → false", node["sp"])
            r4.require(ok, (fn, "shared-key"), "is_custom_disjoint does not return false when a key of self.custom is contained in other.custom")
            ito = H.origins(it, env, extra=re.compile(r"::keys$"))
            r4.require(any("custom" in o for o in ito), (fn, "iter"), "is_custom_disjoint does not iterate the custom keys: %s" % sorted(map(str, ito)))
    # ---- validate_disjoint decision
    fn = SER + "::validate_disjoint"
    h = F.hir(fn)
    if r4.anchor(h, fn):
        env = H.Env(h)
        m = H.find_first(h, lambda n: n.get("k") == "match" and n.get("src") == "normal")
        if r4.require(m is not None, (fn, "table"), "validate_disjoint decision table not found"):
            for arm in m["arms"]:
                ps = H.pat_str(arm["pat"])
                if ps == "(Some(_), Some(_))":
                    fns = H.called_fns(arm["body"])
                    r4.require(JWSH + "::is_disjoint" in fns, (fn, "both"), "validate_disjoint does not call JwsHeader::is_disjoint when both headers are present")
                    r4.site("validate_disjoint (Some,Some) → is_disjoint", arm["body"].get("sp"))
        # if is_disjoint {Ok} else {Err}
        for n, oc in H.exits(h):
            pass
        tree, infos = L.exit_infos(h)
        for e in infos:
            conds = [(c[2], H.strip(c[1]).get("res", {}).get("local")) for c in e.conds if c[0] == "if"]
            if L.is_success_exit(e):
                r4.require((True, "is_disjoint") in conds, (fn, "ok-cond"), "validate_disjoint returns Ok without is_disjoint being true")
            else:
                r4.require((False, "is_disjoint") in conds, (fn, "err-cond"), "validate_disjoint's error exit is not the !is_disjoint branch")
            r4.site("validate_disjoint exit %s under %s" % (e.outcome, conds), e.node.get("sp"))
    r4.floor(30)


def _dup_pairs(h, env, r4, fn):
    """fields f for which a disjunct `self.f.is_some() && other.f.is_some()` exists in the definition of has_duplicate"""
    covered = set()
    init = None
    for n in H.walk(H.root(h)):
        if n.get("k") == "let" and any(b[0] == "has_duplicate" for b in H.pat_bindings(n["pat"])):
            init = n["init"]
    if not r4.require(init is not None, (fn, "has_duplicate"), "`has_duplicate` definition not found"):
        return covered
    for dj in H.disjuncts(init):
        cs = H.conjuncts(dj)
        if len(cs) != 2:
            r4.fail((fn, "disjunct-shape"), "a disjunct of has_duplicate is not a pair of presence tests", dj.get("sp"))
            continue
        sides = {}
        for c in cs:
            c = H.strip(c)
            if c.get("k") != "mcall" or not (c.get("fn") or "").endswith("Option::is_some"):
                r4.fail((fn, "conjunct-shape"), "a conjunct of has_duplicate is not `<field>.is_some()`", c.get("sp"))
                continue
            recv = c["recv"]
            oo = H.origins(recv, env, adapters=None)
            for o in oo:
                if o[0] == "param" and len(o) >= 3:
                    sides[o[1]] = o[2]
                elif o[0] == "call":
                    # accessor call self.alg()
                    inner = H.strip(recv)
                    who = H.origins(H.call_args(inner)[0], env)
                    for w in who:
                        if w[0] == "param":
                            sides[w[1]] = o[1].rsplit("::", 1)[-1]
        if set(sides) == {"self", "other"} and sides["self"] == sides["other"]:
            covered.add(sides["self"])
            r4.site("%s: duplicate test for field %s" % (L.short(fn), sides["self"]), dj.get("sp"))
        else:
            r4.fail((fn, "pair-mismatch", str(sorted(sides.items()))), "%s: a disjunct compares different fields or the same header twice: %s" % (L.short(fn), sorted(sides.items())), dj.get("sp"))
    return covered


def _returns_not_dup(h, env, r4, fn):
    ok = False
    for n, _ in H.exits(h):
        inner, neg = H.negated(n)
        inner = H.strip(inner)
        if neg and inner.get("k") == "path" and inner.get("res", {}).get("local") == "has_duplicate":
            ok = True
    r4.require(ok, (fn, "returns"), "%s does not return `!has_duplicate`" % L.short(fn))
