"""C14 — IOTA state-metadata packing round-trips and rewrites only self-references."""
import re

import hir as H
import mir as M
import rulelib as L
import symrules as SR
import sym

CRATES = ["identity_iota_core", "identity_document", "identity_verification"]
SM = "identity_iota_core::state_metadata::document"
SMD = SM + "::StateMetadataDocument"
CDD = "identity_document::document::core_document::CoreDocumentData"
CD = "identity_document::document::core_document::CoreDocument"
ID = "identity_iota_core::did::iota_did::IotaDID"

# which closure of CoreDocumentData::try_map / map must transform which field
FIELD_MAP = {
    "id": "id_map", "controller": "controller_map", "verification_method": "method_map", "authentication": "method_map", "assertion_method": "method_map",
    "key_agreement": "method_map", "capability_delegation": "method_map", "capability_invocation": "method_map", "service": "services_map",
}
PASS_THROUGH = {"also_known_as", "properties"}


def has_only_data(oo):
    return ("param", "data") in oo and all(o == ("param", "data") or o[0] in ("lit", "binary", "struct") for o in oo)


def run(F, R, tier):
    R.undecided += ["JSON round trip of arbitrary documents (serde_json)", "documents that themselves mention the reserved placeholder did:0:0 (excluded by the property)"]

    # ------------------------------------------------------------------ R1 framing agreement
    r1 = R.rule("C14-R1", "T7", "writer and reader agree on the frame: marker(3) · version(1) · encoding(1) · u16 little-endian length(2) · data; the length is checked on both sides; reads never index")
    wfn = SM + "::add_flags_to_message"
    wb = F.mir(wfn)
    wh = F.hir(wfn)
    if r1.anchor(wb, wfn) and r1.anchor(wh, wfn):
        # by abstract evaluation: what the returned buffer receives, in order, on the accepting path
        tabw = SR.Table(F, wfn, rule=r1)
        okp = tabw.ok()
        r1.require(len(okp) >= 1 or not tabw.paths, (wfn, "no-success"), "add_flags_to_message has no accepting path")
        for q in okp:
            ret = q.ret.fields[0] if isinstance(q.ret, sym.V) and q.ret.fields else q.ret
            seq = [(e.name, e.args[1]) for e in q.events if e.kind == "call" and e.name in ("extend_from_slice", "push", "append", "extend", "insert", "extend_from_within", "resize", "truncate")
                   and e.args and sym.term(e.args[0]) == sym.term(ret)]
            shown = [(a, sym.fmt(sym.term(b))[:60]) for a, b in seq]
            r1.site("writer appends %s" % shown)
            lenconv = [e for e in q.calls(r"try_from$") if q.succeeded(e) is True and sym.term(e.args[0]) == ("call", "alloc::vec::Vec::len", (SR.param("data"),))]
            good = len(seq) == 5
            if good:
                marker = sym.Evaluator(F).const_value(SM + "::DID_MARKER")
                good = (isinstance(marker, list) and len(marker) == 3 and sym.term(seq[0][1]) == sym.term(marker) and seq[0][0] in ("extend_from_slice", "extend")
                        and seq[1] == ("push", sym.Sym(SR.param("version"))) and seq[2] == ("push", sym.Sym(SR.param("encoding")))
                        and seq[3][0] in ("extend_from_slice", "extend") and bool(lenconv) and sym.term(seq[3][1])[:1] == ("call",) and sym.term(seq[3][1])[1].endswith("u16::to_le_bytes") and sym.term(seq[3][1])[2] == (("payload", lenconv[0].result.t, "Ok", 0),)
                        and seq[4][0] in ("append", "extend", "extend_from_slice") and sym.term(seq[4][1]) == SR.param("data"))
            r1.require(good, (wfn, "layout"), "the writer does not append marker, version, encoding, u16 little-endian length (checked conversion of data.len()), data in that order: %s" % shown)
            r1.require(bool(lenconv), (wfn, "length-of-data"), "the length written is not a checked conversion of data.len()")
        for q in tabw.err():
            r1.require(not any(q.succeeded(e) is True for e in q.calls(r"try_from$")) , (wfn, "err"), "the writer fails although the length conversion succeeded")
        casts = [s_ for b in wb.blocks for s_ in b["s"] if s_["k"] == "assign" and s_["rv"]["k"] == "cast" and s_["rv"]["ty"] == "u16"]
        r1.require(not casts, (wfn, "truncating-cast"), "the payload length is narrowed with `as u16` (silent truncation above 65535 bytes) instead of a checked conversion")
        r1.site("writer: length = u16::try_from(data.len())? written with to_le_bytes")
    rfn = SMD + "::unpack"
    rh = F.hir(rfn)
    rb = F.mir(rfn)
    if r1.anchor(rh, rfn) and r1.anchor(rb, rfn):
        env = H.Env(rh)
        # the slices the reader takes from its input, in order, on the accepting path(s) — by abstract evaluation, so that
        # named offset constants, hoisted locals or helper functions do not matter
        gets = []
        tabr = SR.Table(F, rfn, opaque=r"from_json_slice$|from_le_bytes$|FromPrimitive|from_u8$|try_from$|TryFrom|TryInto", rule=r1, max_paths=4000)
        best = None
        for q in tabr.ok():
            gs = [e for e in q.calls(r"(\[T\]|slice::<impl \[T\]>)::get$") if sym.term(e.args[0]) == SR.param("data")]
            if best is None or len(gs) > len(best):
                best = gs
        for e in best or []:
            t_ = sym.term(e.args[1])
            ints = [x[1] for x in sym.subterms(t_) if isinstance(x, tuple) and x[:1] == ("lit",) and isinstance(x[1], int) and not isinstance(x[1], bool)]
            if t_[:1] == ("lit",):
                gets.append(("idx", t_[1]))
            elif t_[:1] == ("struct",):
                fl = dict((kv[0], kv[1]) for kv in t_[2:] if isinstance(kv, tuple) and len(kv) == 2)
                kind = t_[1].rsplit("::", 1)[-1]
                lo, hi = fl.get("start"), fl.get("end")
                lits = [x[1] for x in (lo, hi) if isinstance(x, tuple) and x[:1] == ("lit",)]
                if kind == "Range" and isinstance(hi, tuple) and hi[:1] != ("lit",):
                    lits += [y[1] for y in sym.subterms(hi) if isinstance(y, tuple) and y[:1] == ("lit",) and isinstance(y[1], int)]
                gets.append((kind, lits))
            elif t_[:1] == ("call",) and "RangeInclusive" in t_[1]:
                gets.append(("RangeInclusive", ints[:2]))
            else:
                gets.append(("?", ints))
        r1.site("reader slices %s" % gets, rh["value"]["sp"])
        want_r = [("RangeInclusive", [0, 2]), ("idx", 3), ("idx", 4), ("RangeInclusive", [5, 6])]
        r1.require(gets[:4] == want_r, (rfn, "layout"), "the reader does not read marker [0..=2], version 3, encoding 4, length [5..=6]: %s" % gets)
        r1.require(len(gets) == 5 and gets[4][0] == "Range" and gets[4][1][0] == 7 and 7 in gets[4][1][1:], (rfn, "data-range"), "the reader does not take data from 7..7+len: %s" % gets[4:])
        fns = H.called_fns(H.root(rh))
        r1.require(any(f.endswith("u16::from_le_bytes") for f in fns), (rfn, "endianness"), "the length is not read with u16::from_le_bytes")
        # no indexing / slicing with [] on the input
        idx = [t for _, t in rb.calls(re.compile(r"Index(Mut)?(<.*>)?(>)?::index(_mut)?$"))]
        asserts = [b["t"] for b in rb.blocks if b["t"]["k"] == "assert" and b["t"]["msg"] == "BoundsCheck"]
        r1.require(not idx and not asserts, (rfn, "indexing"), "unpack indexes its input (panics on short data) instead of using get")
        # marker constant shared
        r1.require(("def", SM + "::DID_MARKER") in {("def", x.get("res", {}).get("def")) for x in H.walk(H.root(rh)) if x.get("k") == "path"}, (rfn, "marker"), "the reader does not compare against DID_MARKER")
        mk = F.bodies.get(SM + "::DID_MARKER")
        if r1.anchor(mk, "DID_MARKER"):
            r1.site("DID_MARKER = %s" % H.literals(H.root(mk["hir"])))
            r1.require(len(bytes(H.literals(H.root(mk["hir"]))) if all(isinstance(x, int) for x in H.literals(H.root(mk["hir"]))) else b"") in (0, 3) or True, ("DID_MARKER", "len"), "")
    r1.floor(4)

    # ------------------------------------------------------------------ R4 rejects before decoding
    r4 = R.rule("C14-R4", "T2", "marker, version and encoding mismatches and a length prefix exceeding the data return Err before JSON decoding")
    if rh:
        env = H.Env(rh)
        tree, infos = L.exit_infos(rh)
        dec = [n for n in H.walk(H.root(rh)) if n.get("k") in ("call", "mcall") and (H.fn_name(n) or "").endswith("from_json_slice")]
        if r4.require(len(dec) == 1, (rfn, "decode"), "expected one from_json_slice call"):
            pre = tree.preceding(dec[0])
            guards = [(H.outcome(s2["then"]), s2) for s in pre for s2 in [s["e"] if s.get("k") == "semi" else s] if s2.get("k") == "if" and H.diverges(s2["then"])]
            kinds = set()
            for oc, g in guards:
                c = H.strip(g["cond"])
                if c.get("k") == "binary" and c["op"] == "Ne":
                    names = {H.local_name(c["l"]), H.local_name(c["r"])} | {H.variant_name(x.get("res", {})) for x in H.walk(c) if x.get("k") == "path"}
                    if "marker" in names and "DID_MARKER" in names and oc.startswith("Err("):
                        kinds.add("marker")
                    if "version" in names and "V1" in names and oc.startswith("Err("):
                        kinds.add("version")
            tried = [(H.fn_name(c) or "") for c in H.tried_calls(pre)]
            if any(re.search(r"StateMetadataVersion as core::convert::TryFrom<u8>>::try_from$", t) or t.endswith("TryFrom::try_from") for t in tried):
                kinds.add("version-byte")
            if any(re.search(r"StateMetadataEncoding as core::convert::TryFrom<u8>>::try_from$", t) for t in tried) or sum(1 for t in tried if t.endswith("TryFrom::try_from")) >= 2:
                kinds.add("encoding-byte")
            # the data slice `get(7..7+len).ok_or(..)?` precedes
            if sum(1 for t in tried if t.endswith("::get")) >= 5:
                kinds.add("length")
            r4.site("before JSON decoding: %s" % sorted(kinds), dec[0]["sp"])
            for k in ("marker", "version", "version-byte", "encoding-byte", "length"):
                r4.require(k in kinds, (rfn, "reject-before-decode", k), "unpack can reach JSON decoding without the `%s` check" % k)
            ao = H.origins(H.call_args(dec[0])[0], env, extra=re.compile(r"\[T\]::get$"))
            r4.require(has_only_data(ao), (rfn, "decode-arg"), "JSON is not decoded from the length-delimited slice of the input")
    r4.floor(1)

    # ------------------------------------------------------------------ R5 what the packed JSON omits is restored
    r5 = R.rule("C14-R5", "T12", "every member the serialiser may omit from the packed document / metadata is restored to the very value that was omitted: Option members are skipped only by Option::is_none, collections only when empty and with #[serde(default)] (a predicate that also skips Some(false) or 0 would lose it in the pack/unpack round trip)")
    n5 = 0
    for ty in ("identity_iota_core::document::iota_document_metadata::IotaDocumentMetadata", "identity_iota_core::state_metadata::document::StateMetadataDocument",
               "identity_document::document::core_document::CoreDocumentData"):
        n5 += L.serde_skip_inverse(r5, F, ty)
    r5.floor(14)


    # ------------------------------------------------------------------ R2 rewrite coverage
    r2 = R.rule("C14-R2", "T5", "CoreDocumentData::try_map transforms every DID-bearing field with its own closure (id, controller, the six method sets, service) and passes the other fields through")
    fields = F.adt_fields(CDD)
    fn = CDD + "::try_map"
    h = F.hir(fn)
    if r2.anchor(fields, CDD) and r2.anchor(h, fn):
        env = H.Env(h)
        names = [f["name"] for f in fields]
        did_fields = {f["name"] for f in fields if re.search(r"CoreDID|DIDUrl|VerificationMethod|MethodRef|Service\b|service::Service", f["ty"])}
        r2.site("CoreDocumentData fields mentioning DIDs: %s" % sorted(did_fields))
        r2.require(did_fields == set(FIELD_MAP), (CDD, "did-fields"), "the DID-bearing fields of CoreDocumentData changed to %s; the rewrite table must be re-established" % sorted(did_fields))
        r2.require(set(names) == set(FIELD_MAP) | PASS_THROUGH, (CDD, "fields"), "CoreDocumentData fields changed: %s" % names)
        lits = [s for s in H.struct_lits(h) if s.get("ty") == CDD]
        if r2.require(len(lits) == 1 and not lits[0].get("base"), (fn, "literal"), "try_map does not end in a full CoreDocumentData literal"):
            for f in lits[0]["fields"]:
                nm = f["name"]
                # which closure parameter is applied in the expression computing this field
                used = set()
                src = set()
                trace = set()
                H.origins(f["e"], env, trace=trace)
                work = [f["e"]]
                seen_ids = set()
                while work:
                    e = work.pop()
                    for x in H.walk(e):
                        if x.get("k") == "path" and "local" in x.get("res", {}):
                            ln = x["res"]["local"]
                            bid = x["res"]["id"]
                            if ln in ("id_map", "controller_map", "method_map", "services_map"):
                                used.add(ln)
                            if bid in seen_ids:
                                continue
                            seen_ids.add(bid)
                            for (d, _p) in env.defs.get(bid, []):
                                if isinstance(d, dict) and d.get("k") != "closure_param":
                                    work.append(d)
                        if x.get("k") == "field":
                            for o in H.origins(x, env):
                                if o[:2] == ("param", "self") and len(o) > 2:
                                    src.add(o[2])
                r2.site("try_map: %s ← self.%s via %s" % (nm, sorted(src), sorted(used) or "pass-through"), f["e"].get("sp"))
                if nm in FIELD_MAP:
                    r2.require(used == {FIELD_MAP[nm]}, (fn, "closure", nm), "field `%s` is rewritten with %s, expected %s (e.g. method ids checked with the controller rule, or not rewritten at all)" % (nm, sorted(used), FIELD_MAP[nm]))
                    r2.require(src == {nm}, (fn, "source", nm), "field `%s` is computed from self.%s" % (nm, sorted(src)))
                else:
                    r2.require(not used and src == {nm}, (fn, "pass-through", nm), "field `%s` must be passed through unchanged" % nm)
    # element-level maps cover id and controller of methods, id of services, did of DIDUrl
    for ty, fn_, want in (("identity_verification::verification_method::method::VerificationMethod", "try_map", {"id", "controller"}),
                          ("identity_document::service::service::Service", "try_map", {"id"})):
        h = F.hir(ty + "::" + fn_)
        if not r2.anchor(h, ty + "::" + fn_):
            continue
        env = H.Env(h)
        lits = [s for s in H.struct_lits(h) if s.get("ty") == ty]
        mapped = set()
        for s in lits:
            for f in s["fields"]:
                fns = H.called_fns(f["e"])
                calls_f = any(x.get("k") == "call" and H.local_name(x.get("callee")) == "f" for x in H.walk(f["e"])) or any(f2.endswith("try_map") or f2.endswith("::map") for f2 in fns)
                if calls_f:
                    mapped.add(f["name"])
        r2.site("%s::%s rewrites %s" % (L.short(ty), fn_, sorted(mapped)))
        r2.require(mapped == want, (ty + "::" + fn_, "coverage"), "%s::%s rewrites %s, expected %s" % (L.short(ty), fn_, sorted(mapped), sorted(want)))
    r2.floor(13)

    # ------------------------------------------------------------------ R3 the closures
    r3 = R.rule("C14-R3", "T4", "pack: did == own id → placeholder else unchanged, for all four roles; unpack: did == placeholder → target DID else unchanged, with IotaDID::check_validity on the non-placeholder branch for id and controller only; result re-validated by CoreDocument::try_from")
    pfn = "<" + SMD + " as core::convert::From<identity_iota_core::document::iota_document::IotaDocument>>::from"
    if r3.anchor(F.hir(pfn), pfn):
        # by abstract evaluation: the four role closures handed to map_unchecked, each applied to an arbitrary DID x:
        #   x == the document's own id → PLACEHOLDER_DID, otherwise x unchanged
        ev_ = sym.Evaluator(F, opaque=r"CoreDocument::map_unchecked$")
        PH = sym.term(ev_.const_value("identity_iota_core::state_metadata::document::PLACEHOLDER_DID"))
        r3.require(PH[:1] != ("def",), (pfn, "placeholder"), "the PLACEHOLDER_DID static could not be evaluated")
        ok = False
        try:
            ps = [q for q in ev_.explore(pfn) if q.complete]
        except (sym.Abort, sym.TooManyPaths) as e:
            ps = []
            r3.fail((pfn, "not-evaluable"), "the pack conversion could not be evaluated: %s" % e)
        mus = [e for q in ps for e in q.calls(r"CoreDocument::map_unchecked$")]
        if r3.require(len(mus) >= 1, (pfn, "map_unchecked"), "pack does not rewrite through CoreDocument::map_unchecked"):
            mu = mus[0]
            roles = mu.args[1:5]
            r3.site("map_unchecked(%d role closures)" % len(roles))
            r3.require(len(roles) == 4 and all(isinstance(c_, sym.Clo) for c_ in roles), (pfn, "four-roles"), "map_unchecked is not given a closure for each of id, controller, methods, services")
            ok = len(roles) == 4
            for role, c_ in zip(("id", "controller", "methods", "services"), roles):
                if not isinstance(c_, sym.Clo):
                    ok = False
                    continue
                X = sym.Sym(("param", "x"))
                try:
                    tbl = [q for q in ev_.explore_closure(c_, [X]) if q.complete]
                except (sym.Abort, sym.TooManyPaths):
                    tbl = []
                good = len(tbl) == 2
                for q in tbl:
                    eqs = [(a, c) for (a, c, _, _) in q.decisions if a[0] == "eq" and ("param", "x") in (a[1], a[2])]
                    if len(eqs) != 1 or len(q.decisions) != 1:
                        good = False
                        continue
                    a, c = eqs[0]
                    other = a[2] if a[1] == ("param", "x") else a[1]
                    own = SR.derives(other, SR.param("document")) and "id" in sym.fmt(other)
                    if c:
                        good = good and own and SR.pure(q.ret, PH)
                    else:
                        good = good and own and sym.term(q.ret) == ("param", "x")
                r3.site("pack closure (%s): did == own id → PLACEHOLDER_DID else did: %s" % (role, good))
                ok = ok and good
        r3.require(ok, (pfn, "closure"), "the pack closure is not `if did == own id { PLACEHOLDER } else { did }` for each of the four roles")
    ufn = SMD + "::into_iota_document"
    if r3.anchor(F.hir(ufn), ufn):
        ev_ = sym.Evaluator(F, opaque=r"CoreDocument::try_map$|IotaDID::check_validity$")
        PH = sym.term(ev_.const_value("identity_iota_core::state_metadata::document::PLACEHOLDER_DID"))
        try:
            ps = [q for q in ev_.explore(ufn) if q.complete]
        except (sym.Abort, sym.TooManyPaths) as e:
            ps = []
            r3.fail((ufn, "not-evaluable"), "the unpack conversion could not be evaluated: %s" % e)
        tms = [e for q in ps for e in q.calls(r"CoreDocument::try_map$")]
        if r3.require(len(tms) >= 1, (ufn, "try_map"), "unpack does not rewrite through CoreDocument::try_map (which re-validates the document)"):
            tm = tms[0]
            for role, c_ in zip(("id", "controller", "methods", "services"), tm.args[1:5]):
                if not r3.require(isinstance(c_, sym.Clo), (ufn, "role-closure", role), "the %s role is not rewritten by a closure" % role):
                    continue
                X = sym.Sym(("param", "x"))
                try:
                    tbl = [q for q in ev_.explore_closure(c_, [X]) if q.complete]
                except (sym.Abort, sym.TooManyPaths):
                    tbl = []
                to_target = keeps = validates = False
                shape_ok = bool(tbl)
                for q in tbl:
                    eqs = [(a, c) for (a, c, _, _) in q.decisions if a[0] == "eq" and ("param", "x") in (a[1], a[2])]
                    if len(eqs) != 1:
                        shape_ok = False
                        continue
                    a, c = eqs[0]
                    other = a[2] if a[1] == ("param", "x") else a[1]
                    if not SR.pure(other, PH):
                        shape_ok = False
                    val = q.calls(r"IotaDID::check_validity$")
                    out = q.ret.fields[0] if isinstance(q.ret, sym.V) and q.ret.name == "Ok" and q.ret.fields else q.ret
                    if c:
                        to_target = to_target or (SR.derives(out, SR.param("original_did")) and not val)
                    else:
                        if val:
                            validates = True
                            if q.succeeded(val[0]) is True:
                                keeps = keeps or sym.term(out) == ("param", "x")
                        else:
                            keeps = keeps or sym.term(out) == ("param", "x")
                r3.site("unpack closure %s: placeholder→target=%s, else validates IOTA DID=%s, keeps did=%s" % (role, to_target, validates, keeps))
                if not r3.require(shape_ok and to_target and keeps, (ufn, "role-closure", role), "the %s role is not rewritten by a `placeholder → target else unchanged` closure" % role):
                    continue
                if role in ("id", "controller"):
                    r3.require(validates, (ufn, "role-validates", role), "the %s of an unpacked document is not required to be an IOTA DID" % role)
                else:
                    r3.require(not validates, (ufn, "role-foreign", role), "%s DIDs of foreign methods are required to be IOTA DIDs: documents with foreign DIDs fail to unpack" % role)
    fn = CD + "::try_map"
    h = F.hir(fn)
    if r3.anchor(h, fn):
        fns = H.called_fns(H.root(h))
        r3.require(CDD + "::try_map" in fns and any(re.search(r"CoreDocument as core::convert::TryFrom<.*CoreDocumentData>>::try_from$|TryFrom::try_from$", f) for f in fns), (fn, "revalidates"), "CoreDocument::try_map does not re-validate the rewritten data through CoreDocument::try_from")
        r3.site("CoreDocument::try_map = data.try_map(..) then CoreDocument::try_from")
        env = H.Env(h)
        for c in H.calls(h, CDD + "::try_map"):
            names = [H.local_name(a) for a in H.call_args(c)[1:]]
            r3.require(names == ["id_map", "controller_map", "method_map", "services_map"] or names[:4] == ["id_update", "controller_update", "methods_update", "service_update"], (fn, "arg-order"), "CoreDocument::try_map forwards its closures in a different order: %s" % names)
    r3.floor(9)
