"""C14 — IOTA state-metadata packing round-trips and rewrites only self-references."""
import re

import hir as H
import mir as M
import rulelib as L
import symrules as SR
import sym

CRATES = ["identity_iota_core", "identity_document", "identity_verification"]
SM = "identity_iota_core::state_metadata::document"
SMD = SM + "::StateMetadataDocument"
CDD = "identity_document::document::core_document::CoreDocumentData"
CD = "identity_document::document::core_document::CoreDocument"
ID = "identity_iota_core::did::iota_did::IotaDID"

# which closure of CoreDocumentData::try_map / map must transform which field
FIELD_MAP = {
    "id": "id_map", "controller": "controller_map", "verification_method": "method_map", "authentication": "method_map", "assertion_method": "method_map",
    "key_agreement": "method_map", "capability_delegation": "method_map", "capability_invocation": "method_map", "service": "services_map",
}
PASS_THROUGH = {"also_known_as", "properties"}


def has_only_data(oo):
    return ("param", "data") in oo and all(o == ("param", "data") or o[0] in ("lit", "binary", "struct") for o in oo)


def run(F, R, tier):
    R.undecided += ["JSON round trip of arbitrary documents (serde_json)", "documents that themselves mention the reserved placeholder did:0:0 (excluded by the property)"]

    # ------------------------------------------------------------------ R1 framing agreement
    r1 = R.rule("C14-R1", "T7", "writer and reader agree on the frame: marker(3) · version(1) · encoding(1) · u16 little-endian length(2) · data; the length is checked on both sides; reads never index")
    wfn = SM + "::add_flags_to_message"
    wb = F.mir(wfn)
    wh = F.hir(wfn)
    if r1.anchor(wb, wfn) and r1.anchor(wh, wfn):
        # by concrete evaluation: the frame produced for payloads of 0, 1, 2, 255, 256, 300 and 65535 (symbolic) bytes is exactly
        # marker · version · encoding · len & 0xFF · len >> 8 · payload, and a payload of 65536 bytes is refused (no silent truncation)
        marker = sym.Evaluator(F).const_value(SM + "::DID_MARKER")
        mk = [x for x in marker] if isinstance(marker, list) else ([ord(c_) for c_ in marker] if isinstance(marker, str) else None)
        r1.require(mk == [68, 73, 68], (wfn, "layout", "marker"), "DID_MARKER is not b\"DID\": %r" % (marker,))
        evw = sym.Evaluator(F, inline_depth=4, concrete_vec=True)
        n_ok = 0
        for n_ in (0, 1, 2, 255, 256, 300, 65535, 65536):
            payload = [sym.Sym(("param", "d%d" % k_)) for k_ in range(n_)]
            try:
                ps = [q for q in evw.explore(wfn, args=[list(payload), sym.V("V1"), sym.V("Json")], max_paths=20)]
            except (sym.Abort, sym.TooManyPaths) as e:
                ps = []
                r1.fail((wfn, "layout"), "add_flags_to_message could not be evaluated on a payload of %d bytes: %s" % (n_, e))
                break
            if not r1.require(len(ps) == 1 and ps[0].complete, (wfn, "layout"), "add_flags_to_message on a payload of %d bytes: %d path(s)%s" % (n_, len(ps), "" if not ps or ps[0].complete else " (incomplete: %s)" % ps[0].note)):
                break
            q = ps[0]
            okq = SR.is_success(q.ret) and not SR.is_failure(q.ret)
            if n_ > 65535:
                r1.require(not okq, (wfn, "length-of-data"), "add_flags_to_message accepts a payload of %d bytes, whose length does not fit the u16 prefix" % n_)
                continue
            if not r1.require(okq, (wfn, "no-success"), "add_flags_to_message refuses a payload of %d bytes" % n_):
                continue
            out = q.ret.fields[0] if isinstance(q.ret, sym.V) and q.ret.fields else None
            want = ("list",) + tuple(("lit", x) for x in (mk or [])) + (("ctor", "V1"), ("ctor", "Json"), ("lit", n_ & 0xFF), ("lit", n_ >> 8)) + tuple(sym.term(x) for x in payload)
            got = sym.term(out) if out is not None else None
            if r1.require(got == want, (wfn, "layout"), "the frame written for a payload of %d bytes is not marker, version, encoding, u16 little-endian length, payload: %s" % (n_, sym.fmt(got)[:160] if got is not None else None)):
                n_ok += 1
        r1.site("writer: frames for payloads of 0, 1, 2, 255, 256, 300, 65535 bytes are marker·version·encoding·len_le·payload (%d of 7); 65536 bytes refused" % n_ok)
        casts = [s_ for b in wb.blocks for s_ in b["s"] if s_["k"] == "assign" and s_["rv"]["k"] == "cast" and s_["rv"]["ty"] == "u16"]
        r1.require(not casts, (wfn, "truncating-cast"), "the payload length is narrowed with `as u16` (silent truncation above 65535 bytes) instead of a checked conversion")
        r1.site("writer: length = u16::try_from(data.len())? written with to_le_bytes")
    rfn = SMD + "::unpack"
    rh = F.hir(rfn)
    rb = F.mir(rfn)
    if r1.anchor(rh, rfn) and r1.anchor(rb, rfn):
        env = H.Env(rh)
        # the slices the reader takes from its input, in order, on the accepting path(s) — by abstract evaluation, so that
        # named offset constants, hoisted locals or helper functions do not matter
        # the reader's side of the frame (bytes 0..=2, 3, 4, [5..=6] little-endian, 7..7+len) is decided on its decision table by C14-R4:
        # established on every accepting path, whatever slicing / prefix / comparison idiom the reader uses; that it cannot panic on short
        # input is C05's inventory (every index / slice needs a dominating length guard there)
        r1.site("reader: offsets and little-endian length established per accepting path (C14-R4)", rh["value"]["sp"])
    r1.floor(3)

    # ------------------------------------------------------------------ R4 rejects before decoding
    r4 = R.rule("C14-R4", "T2", "unpack accepts only: bytes 0..=2 = the marker, byte 3 = the current version, byte 4 = a known encoding, and JSON decoded ✓ from exactly data[7 .. 7 + u16_le(data[5..=6])] — each established on every accepting path of its decision table")
    if rh:
        OPQ4 = r"from_json_slice$|TryFrom<u8>>::try_from$|from_le_bytes$|from_be_bytes$|from_ne_bytes$"
        tab = SR.Table(F, rfn, opaque=OPQ4, rule=r4)
        DATA = SR.param(sym.param_name(F, rfn, 0, "data"))
        va = F.adt(SM.rsplit("::", 1)[0] + "::version::StateMetadataVersion")
        vnames = [v["name"] for v in (va or {}).get("variants", [])]
        r4.require(vnames == ["V1"], ("StateMetadataVersion", "variants"), "StateMetadataVersion has the variants %s: which of them unpack must accept has to be re-established" % vnames)
        mv_ = sym.Evaluator(F).const_value(SM + "::DID_MARKER")
        mt_ = sym.term(mv_) if mv_ is not None else None
        marker = tuple(mt_[1:]) if isinstance(mt_, tuple) and mt_[:1] == ("list",) else (tuple(("lit", b_) for b_ in mv_.encode()) if isinstance(mv_, str) else ())
        r4.require(marker == (("lit", 68), ("lit", 73), ("lit", 68)), ("DID_MARKER", "value"), "DID_MARKER is not b\"DID\": %s" % (marker,))

        def byte_at(t, k):
            """does term t denote byte k of the input (data.get(k) ✓ payload or data[k]), through reference conversions only"""
            for x in sym.subterms(t):
                if isinstance(x, tuple) and x[:1] == ("call",) and x[1].endswith("::get") and len(x[2]) == 2 and x[2][0] == DATA and x[2][1] == ("lit", k):
                    return True
                if isinstance(x, tuple) and x[:1] == ("index",) and x[1] == DATA and x[2] == ("lit", k):
                    return True
            return False

        def rng(t):
            """(lo, hi-term, inclusive) of a range struct term, else None"""
            if isinstance(t, tuple) and t[:1] == ("struct",) and t[1].startswith("core::ops::range::Range"):
                f = dict(t[2:])
                return f.get("start"), f.get("end"), t[1].endswith("Inclusive")
            return None

        def slice_of(t, lo, hi, incl):
            for x in sym.subterms(t):
                if isinstance(x, tuple) and x[:1] == ("call",) and x[1].endswith("::get") and len(x[2]) == 2 and x[2][0] == DATA:
                    r_ = rng(x[2][1])
                    if r_ and r_[0] == ("lit", lo) and (hi is None or (r_[1] == ("lit", hi) and r_[2] == incl) or (r_[1] == ("lit", hi + 1) and not r_[2] and incl)):
                        return x
            return None
        n_ok = 0
        for q in tab.ok():
            n_ok += 1
            tail = q.describe()[:160]
            # marker
            okm = False
            for (a_, c, _, _) in q.decisions:
                if a_[0] == "eq" and c is True:
                    for x, y in ((a_[1], a_[2]), (a_[2], a_[1])):
                        if isinstance(x, tuple) and x[:1] == ("list",) and x[1:] == marker and slice_of(y, 0, 2, True) is not None:
                            okm = True
                if a_[0] == "truth" and c is True and isinstance(a_[1], tuple) and a_[1][:1] == ("call",) and a_[1][1].endswith("starts_with") and a_[1][2][0] == DATA \
                        and isinstance(a_[1][2][1], tuple) and a_[1][2][1][:1] == ("list",) and a_[1][2][1][1:] == marker:
                    okm = True
            r4.require(okm, (rfn, "reject-before-decode", "marker"), "unpack accepts on a path that has not established data[0..=2] == DID_MARKER — path: %s" % tail)
            # version: the checked conversion of byte 3 succeeded (the enum has the single variant V1 = the current version), or byte 3 was compared equal to it
            okv = any(re.search(r"StateMetadataVersion as core::convert::TryFrom<u8>>::try_from$", e.fn or "") and q.succeeded(e) is True and byte_at(sym.term(e.args[0]), 3) for e in q.calls(r"try_from$"))
            for (a_, c, _, _) in q.decisions:
                if a_[0] == "eq" and c is True:
                    for x, y in ((a_[1], a_[2]), (a_[2], a_[1])):
                        if byte_at(x, 3) and (y == ("ctor", "V1") or y == ("lit", 1)):
                            okv = True
            # (a comparison with `StateMetadataVersion::V1 as u8` is recorded as the variant decision byte3 ∈ {V1 | other} = V1)
            okv = okv or any(v_ == "V1" and isinstance(t_, tuple) and byte_at(t_, 3) for t_, v_ in q.variant.items())
            r4.require(okv, (rfn, "reject-before-decode", "version"), "unpack accepts on a path that has not established byte 3 == the current version (checked conversion ✓ or equality) — path: %s" % tail)
            # encoding
            oke = any(re.search(r"StateMetadataEncoding as core::convert::TryFrom<u8>>::try_from$", e.fn or "") and q.succeeded(e) is True and byte_at(sym.term(e.args[0]), 4) for e in q.calls(r"try_from$"))
            r4.require(oke, (rfn, "reject-before-decode", "encoding-byte"), "unpack accepts on a path that has not established byte 4 to be a known encoding — path: %s" % tail)
            # payload = data[7 .. 7 + u16_le(data[5..=6])], JSON-decoded ✓ and returned
            dj = [e for e in q.calls(r"from_json_slice$") if q.succeeded(e) is True]
            okl = False
            if len(dj) == 1:
                at = sym.term(dj[0].args[0])
                for x in sym.subterms(at):
                    if isinstance(x, tuple) and x[:1] == ("call",) and x[1].endswith("::get") and len(x[2]) == 2 and x[2][0] == DATA:
                        r_ = rng(x[2][1])
                        if r_ and r_[0] == ("lit", 7) and not r_[2] and isinstance(r_[1], tuple) and r_[1][:2] == ("op", "Add"):
                            ops_ = [r_[1][2], r_[1][3]]
                            ln = [o for o in ops_ if o != ("lit", 7)]
                            # the length: u16::from_le_bytes(data[5..=6]) — possibly through a widening conversion (usize::from, into, as)
                            le = [y for y in sym.subterms(ln[0])] if len(ln) == 1 and isinstance(ln[0], tuple) else []
                            le = [y for y in le if isinstance(y, tuple) and y[:1] == ("call",) and y[1].endswith("u16::from_le_bytes")]
                            if ("lit", 7) in ops_ and len(le) == 1 and SR.pure(ln[0], le[0], conv=re.compile(r"(From(<u16>)?>::from|From::from|Into::into|Into(<usize>)?>::into|usize::from)$")) and slice_of(le[0], 5, 6, True) is not None:
                                okl = at == ("payload", x, "Some", 0) or SR.pure(at, ("payload", x, "Some", 0))
            r4.require(okl, (rfn, "reject-before-decode", "length"), "unpack does not decode JSON ✓ from exactly data[7 .. 7 + u16::from_le_bytes(data[5..=6])] — path: %s" % tail)
            r4.require(len(dj) == 1 and SR.derives(q.ret, dj[0].result.t), (rfn, "decode-arg"), "unpack does not return the document decoded from the length-delimited slice")
        r4.site("unpack: %d accepting / %d rejecting path(s); marker, version, encoding and the length-delimited slice established on every accepting one" % (n_ok, len(tab.err())))
        r4.require(n_ok >= 1 or not tab.paths, (rfn, "rows"), "unpack has no accepting path")
    r4.floor(1)

    # ------------------------------------------------------------------ R5 what the packed JSON omits is restored
    r5 = R.rule("C14-R5", "T12", "every member the serialiser may omit from the packed document / metadata is restored to the very value that was omitted: Option members are skipped only by Option::is_none, collections only when empty and with #[serde(default)] (a predicate that also skips Some(false) or 0 would lose it in the pack/unpack round trip)")
    n5 = 0
    for ty in ("identity_iota_core::document::iota_document_metadata::IotaDocumentMetadata", "identity_iota_core::state_metadata::document::StateMetadataDocument",
               "identity_document::document::core_document::CoreDocumentData"):
        n5 += L.serde_skip_inverse(r5, F, ty)
    r5.floor(14)


    # ------------------------------------------------------------------ R2 rewrite coverage
    r2 = R.rule("C14-R2", "T5", "CoreDocumentData::try_map transforms every DID-bearing field with its own closure (id, controller, the six method sets, service) and passes the other fields through")
    fields = F.adt_fields(CDD)
    fn = CDD + "::try_map"
    h = F.hir(fn)
    if r2.anchor(fields, CDD) and r2.anchor(h, fn):
        env = H.Env(h)
        names = [f["name"] for f in fields]
        did_fields = {f["name"] for f in fields if re.search(r"CoreDID|DIDUrl|VerificationMethod|MethodRef|Service\b|service::Service", f["ty"])}
        r2.site("CoreDocumentData fields mentioning DIDs: %s" % sorted(did_fields))
        r2.require(did_fields == set(FIELD_MAP), (CDD, "did-fields"), "the DID-bearing fields of CoreDocumentData changed to %s; the rewrite table must be re-established" % sorted(did_fields))
        r2.require(set(names) == set(FIELD_MAP) | PASS_THROUGH, (CDD, "fields"), "CoreDocumentData fields changed: %s" % names)
        lits = [s for s in H.struct_lits(h) if s.get("ty") == CDD]
        if r2.require(len(lits) == 1 and not lits[0].get("base"), (fn, "literal"), "try_map does not end in a full CoreDocumentData literal"):
            for f in lits[0]["fields"]:
                nm = f["name"]
                # which closure parameter is applied in the expression computing this field
                used = set()
                src = set()
                trace = set()
                H.origins(f["e"], env, trace=trace)
                work = [f["e"]]
                seen_ids = set()
                while work:
                    e = work.pop()
                    for x in H.walk(e):
                        if x.get("k") == "path" and "local" in x.get("res", {}):
                            ln = x["res"]["local"]
                            bid = x["res"]["id"]
                            if ln in ("id_map", "controller_map", "method_map", "services_map"):
                                used.add(ln)
                            if bid in seen_ids:
                                continue
                            seen_ids.add(bid)
                            for (d, _p) in env.defs.get(bid, []):
                                if isinstance(d, dict) and d.get("k") != "closure_param":
                                    work.append(d)
                        if x.get("k") == "field":
                            for o in H.origins(x, env):
                                if o[:2] == ("param", "self") and len(o) > 2:
                                    src.add(o[2])
                r2.site("try_map: %s ← self.%s via %s" % (nm, sorted(src), sorted(used) or "pass-through"), f["e"].get("sp"))
                if nm in FIELD_MAP:
                    r2.require(used == {FIELD_MAP[nm]}, (fn, "closure", nm), "field `%s` is rewritten with %s, expected %s (e.g. method ids checked with the controller rule, or not rewritten at all)" % (nm, sorted(used), FIELD_MAP[nm]))
                    r2.require(src == {nm}, (fn, "source", nm), "field `%s` is computed from self.%s" % (nm, sorted(src)))
                else:
                    r2.require(not used and src == {nm}, (fn, "pass-through", nm), "field `%s` must be passed through unchanged" % nm)
    # element-level maps cover id and controller of methods, id of services, did of DIDUrl
    for ty, fn_, want in (("identity_verification::verification_method::method::VerificationMethod", "try_map", {"id", "controller"}),
                          ("identity_document::service::service::Service", "try_map", {"id"})):
        h = F.hir(ty + "::" + fn_)
        if not r2.anchor(h, ty + "::" + fn_):
            continue
        env = H.Env(h)
        lits = [s for s in H.struct_lits(h) if s.get("ty") == ty]
        mapped = set()
        for s in lits:
            for f in s["fields"]:
                fns = H.called_fns(f["e"])
                calls_f = any(x.get("k") == "call" and H.local_name(x.get("callee")) == "f" for x in H.walk(f["e"])) or any(f2.endswith("try_map") or f2.endswith("::map") for f2 in fns)
                if calls_f:
                    mapped.add(f["name"])
        r2.site("%s::%s rewrites %s" % (L.short(ty), fn_, sorted(mapped)))
        r2.require(mapped == want, (ty + "::" + fn_, "coverage"), "%s::%s rewrites %s, expected %s" % (L.short(ty), fn_, sorted(mapped), sorted(want)))
    r2.floor(13)

    # ------------------------------------------------------------------ R3 the closures
    r3 = R.rule("C14-R3", "T4", "pack: did == own id → placeholder else unchanged, for all four roles; unpack: did == placeholder → target DID else unchanged, with IotaDID::check_validity on the non-placeholder branch for id and controller only; result re-validated by CoreDocument::try_from")
    pfn = "<" + SMD + " as core::convert::From<identity_iota_core::document::iota_document::IotaDocument>>::from"
    if r3.anchor(F.hir(pfn), pfn):
        # by abstract evaluation: the four role closures handed to map_unchecked, each applied to an arbitrary DID x:
        #   x == the document's own id → PLACEHOLDER_DID, otherwise x unchanged
        ev_ = sym.Evaluator(F, opaque=r"CoreDocument::map_unchecked$")
        PH = sym.term(ev_.const_value("identity_iota_core::state_metadata::document::PLACEHOLDER_DID"))
        r3.require(PH[:1] != ("def",), (pfn, "placeholder"), "the PLACEHOLDER_DID static could not be evaluated")
        ok = False
        try:
            ps = [q for q in ev_.explore(pfn) if q.complete]
        except (sym.Abort, sym.TooManyPaths) as e:
            ps = []
            r3.fail((pfn, "not-evaluable"), "the pack conversion could not be evaluated: %s" % e)
        mus = [e for q in ps for e in q.calls(r"CoreDocument::map_unchecked$")]
        if r3.require(len(mus) >= 1, (pfn, "map_unchecked"), "pack does not rewrite through CoreDocument::map_unchecked"):
            mu = mus[0]
            roles = mu.args[1:5]
            r3.site("map_unchecked(%d role closures)" % len(roles))
            r3.require(len(roles) == 4 and all(isinstance(c_, sym.Clo) for c_ in roles), (pfn, "four-roles"), "map_unchecked is not given a closure for each of id, controller, methods, services")
            ok = len(roles) == 4
            for role, c_ in zip(("id", "controller", "methods", "services"), roles):
                if not isinstance(c_, sym.Clo):
                    ok = False
                    continue
                X = sym.Sym(("param", "x"))
                try:
                    tbl = [q for q in ev_.explore_closure(c_, [X]) if q.complete]
                except (sym.Abort, sym.TooManyPaths):
                    tbl = []
                good = len(tbl) == 2
                for q in tbl:
                    eqs = [(a, c) for (a, c, _, _) in q.decisions if a[0] == "eq" and ("param", "x") in (a[1], a[2])]
                    if len(eqs) != 1 or len(q.decisions) != 1:
                        good = False
                        continue
                    a, c = eqs[0]
                    other = a[2] if a[1] == ("param", "x") else a[1]
                    own = SR.derives(other, SR.param("document")) and "id" in sym.fmt(other)
                    if c:
                        good = good and own and SR.pure(q.ret, PH)
                    else:
                        good = good and own and sym.term(q.ret) == ("param", "x")
                r3.site("pack closure (%s): did == own id → PLACEHOLDER_DID else did: %s" % (role, good))
                ok = ok and good
        r3.require(ok, (pfn, "closure"), "the pack closure is not `if did == own id { PLACEHOLDER } else { did }` for each of the four roles")
    ufn = SMD + "::into_iota_document"
    if r3.anchor(F.hir(ufn), ufn):
        ev_ = sym.Evaluator(F, opaque=r"CoreDocument::try_map$|IotaDID::check_validity$")
        PH = sym.term(ev_.const_value("identity_iota_core::state_metadata::document::PLACEHOLDER_DID"))
        try:
            ps = [q for q in ev_.explore(ufn) if q.complete]
        except (sym.Abort, sym.TooManyPaths) as e:
            ps = []
            r3.fail((ufn, "not-evaluable"), "the unpack conversion could not be evaluated: %s" % e)
        tms = [e for q in ps for e in q.calls(r"CoreDocument::try_map$")]
        if r3.require(len(tms) >= 1, (ufn, "try_map"), "unpack does not rewrite through CoreDocument::try_map (which re-validates the document)"):
            tm = tms[0]
            for role, c_ in zip(("id", "controller", "methods", "services"), tm.args[1:5]):
                if not r3.require(isinstance(c_, sym.Clo), (ufn, "role-closure", role), "the %s role is not rewritten by a closure" % role):
                    continue
                X = sym.Sym(("param", "x"))
                try:
                    tbl = [q for q in ev_.explore_closure(c_, [X]) if q.complete]
                except (sym.Abort, sym.TooManyPaths):
                    tbl = []
                to_target = keeps = validates = False
                shape_ok = bool(tbl)
                for q in tbl:
                    eqs = [(a, c) for (a, c, _, _) in q.decisions if a[0] == "eq" and ("param", "x") in (a[1], a[2])]
                    if len(eqs) != 1:
                        shape_ok = False
                        continue
                    a, c = eqs[0]
                    other = a[2] if a[1] == ("param", "x") else a[1]
                    if not SR.pure(other, PH):
                        shape_ok = False
                    val = q.calls(r"IotaDID::check_validity$")
                    out = q.ret.fields[0] if isinstance(q.ret, sym.V) and q.ret.name == "Ok" and q.ret.fields else q.ret
                    if c:
                        to_target = to_target or (SR.derives(out, SR.param("original_did")) and not val)
                    else:
                        if val:
                            validates = True
                            if q.succeeded(val[0]) is True:
                                keeps = keeps or sym.term(out) == ("param", "x")
                        else:
                            keeps = keeps or sym.term(out) == ("param", "x")
                r3.site("unpack closure %s: placeholder→target=%s, else validates IOTA DID=%s, keeps did=%s" % (role, to_target, validates, keeps))
                if not r3.require(shape_ok and to_target and keeps, (ufn, "role-closure", role), "the %s role is not rewritten by a `placeholder → target else unchanged` closure" % role):
                    continue
                if role in ("id", "controller"):
                    r3.require(validates, (ufn, "role-validates", role), "the %s of an unpacked document is not required to be an IOTA DID" % role)
                else:
                    r3.require(not validates, (ufn, "role-foreign", role), "%s DIDs of foreign methods are required to be IOTA DIDs: documents with foreign DIDs fail to unpack" % role)
    # … and nothing else: the document that leaves pack / unpack is the one the role rewriting returned, handed to no other
    # call on the way (a second pass over alsoKnownAs, properties, … would rewrite a field the contract does not list)
    for fn_, pat_ in ((pfn, r"CoreDocument::map_unchecked$"), (ufn, r"CoreDocument::try_map$")):
        if F.hir(fn_) is None:
            continue
        ev_ = sym.Evaluator(F, opaque=pat_ + r"|IotaDID::check_validity$")
        try:
            ps = [q for q in ev_.explore(fn_) if q.complete and SR.is_success(q.ret) is not False]
        except (sym.Abort, sym.TooManyPaths):
            continue     # reported above
        n_ = 0
        for q in ps:
            mu_ = q.calls(pat_)
            if len(mu_) != 1:
                r3.fail((fn_, "only-roles"), "expected exactly one role-rewriting call on an accepting path, found %d" % len(mu_))
                continue
            res_ = mu_[0].result.t if isinstance(mu_[0].result, sym.Sym) else sym.term(mu_[0].result)
            later = [e for e in q.events if e.kind == "call" and e is not mu_[0] and any(SR.derives(a_, res_) for a_ in e.args)
                     and not SR.CONVERSIONS.search(re.sub(r"<[^<>]*>", "", e.fn or e.name or ""))]
            r3.require(not later, (fn_, "only-roles"), "the rewritten document is handed to %s before it is returned: fields other than the listed self-references may change" % ", ".join(L.short(e.fn or e.name or "?") for e in later[:3]))
            out = q.ret.fields[0] if isinstance(q.ret, sym.V) and q.ret.name == "Ok" and q.ret.fields else q.ret
            dv = out.f.get("document") if isinstance(out, sym.St) else None
            r3.require(dv is not None and SR.pure(dv, res_), (fn_, "only-roles"), "the returned document is not the value the role rewriting returned: %s" % sym.fmt(sym.term(dv)) if dv is not None else "no `document` member in the result")
            n_ += 1
        r3.site("%s: result.document ← the role rewriting's result, untouched, on %d accepting path(s)" % (L.short(fn_), n_))
    fn = CD + "::try_map"
    h = F.hir(fn)
    if r3.anchor(h, fn):
        fns = H.called_fns(H.root(h))
        r3.require(CDD + "::try_map" in fns and any(re.search(r"CoreDocument as core::convert::TryFrom<.*CoreDocumentData>>::try_from$|TryFrom::try_from$", f) for f in fns), (fn, "revalidates"), "CoreDocument::try_map does not re-validate the rewritten data through CoreDocument::try_from")
        r3.site("CoreDocument::try_map = data.try_map(..) then CoreDocument::try_from")
        env = H.Env(h)
        for c in H.calls(h, CDD + "::try_map"):
            names = [H.local_name(a) for a in H.call_args(c)[1:]]
            r3.require(names == ["id_map", "controller_map", "method_map", "services_map"] or names[:4] == ["id_update", "controller_update", "methods_update", "service_update"], (fn, "arg-order"), "CoreDocument::try_map forwards its closures in a different order: %s" % names)
    r3.floor(11)
