"""C06 — Revocation bitmaps round-trip and revoke exactly the requested indices."""
import base64
import re

import hir as H
import mir as M
import rulelib as L
import symrules as SR
import sym
import spec_tables as S

CRATES = ["identity_credential", "identity_iota_core", "identity_document"]
RB = "identity_credential::revocation::revocation_bitmap_2022::bitmap::RevocationBitmap"
EXT = "identity_credential::revocation::revocation_bitmap_2022::document_ext"
RBS = "identity_credential::credential::revocation_bitmap_status::RevocationBitmapStatus"
CORE = "identity_document::document::core_document::CoreDocument"


def base_variants(body, fn_re):
    out = []
    for bi, t in body.calls(re.compile(fn_re)):
        for a in t["args"]:
            l = M.op_local(a)
            if l is None:
                continue
            for d in body.defs().get(l, []):
                if d[0] == "stmt" and d[3]["rv"]["k"] == "agg" and d[3]["rv"].get("adt", "").endswith("::Base"):
                    out.append(d[3]["rv"]["variant"])
    return out


def run(F, R, tier):
    R.undecided += ["roaring set semantics (insert/remove/contains) and its serialisation", "zlib/base64 round trip on concrete data (flate2, multibase)"]

    # ------------------------------------------------------------------ R1 legacy-format magic ⊑ writer constant
    r1 = R.rule("C06-R1", "T7", "the prefix that tells the current format from the legacy double-encoded one is a prefix of the input-independent bytes the writer emits, and does not match a legacy string")
    fn = RB + "::deserialize_compressed_base64"
    h = F.hir(fn)
    if r1.anchor(h, fn):
        env = H.Env(h)
        sw = [n for n in H.walk(H.root(h)) if n.get("k") == "mcall" and n["name"] == "starts_with"]
        if r1.require(len(sw) == 1, (fn, "prefix-test"), "expected exactly one starts_with test for the legacy format"):
            lit = [x for x in H.literals(sw[0]) if isinstance(x, str)]
            # writer: zlib default header 78 9C then a deflate block: the only constant output bytes are the two header bytes.
            # base64url of bytes (b0,b1,b2): chars 1,2 depend on b0,b1 only; char 3 depends on the low nibble of b1 and the top 2 bits of b2.
            hdr = S.ZLIB_DEFAULT_HEADER
            const_chars = base64.urlsafe_b64encode(hdr + b"\x00").decode()[:2]
            third = sorted({base64.urlsafe_b64encode(hdr + bytes([b2])).decode()[2] for b2 in range(256)})
            legacy_prefix = base64.urlsafe_b64encode(base64.b64encode(hdr + b"\x00")[:3]).decode()[:2]
            r1.site("legacy test: !starts_with(%r); writer constant prefix %r (third char ∈ %s); legacy strings start with %r" % (lit, const_chars, third, legacy_prefix), sw[0]["sp"])
            if r1.require(len(lit) == 1, (fn, "prefix-literal"), "the prefix is not a single string literal"):
                p = lit[0]
                r1.require(const_chars.startswith(p) or p == const_chars, (fn, "prefix-too-long"),
                           "the current-format prefix %r is longer than the constant part %r of the writer's output (third character varies over %s): most bitmaps are mis-detected as legacy and fail to decode" % (p, const_chars, third))
                r1.require(len(p) >= 1 and not legacy_prefix.startswith(p), (fn, "prefix-ambiguous"), "the prefix %r also matches legacy strings (which start with %r)" % (p, legacy_prefix))
            # polarity: legacy branch taken when NOT starting with the prefix; it base64-decodes once more
            tree = H.Tree(h)
            dec = [n for n in H.walk(H.root(h)) if n.get("k") == "call" and (n.get("fn") or "").endswith("BaseEncoding::decode")]
            in_legacy = [n for n in dec if any(c[0] == "if" and c[2] is True and H.negated(c[1])[1] for c in tree.path_conditions(n))]
            r1.require(len(dec) == 2 and len(in_legacy) == 1, (fn, "legacy-branch"), "the legacy branch (one extra base64 decode under !starts_with) was not found")
    # writer side uses Compression::default
    enc_holders = []
    for p_, b_ in F.fn_bodies(crates=None):
        if p_.startswith(RB.rsplit("::", 1)[0] + "::") and "{closure" not in p_:
            m_ = F.mir(p_)
            if m_ is not None and m_.calls(re.compile(r"ZlibEncoder(<.*>)?::new$")):
                enc_holders.append((p_, m_))
    r1.require(len(enc_holders) >= 1, ("compress_zlib", "ANCHOR"), "no function of the bitmap module creates the zlib encoder")
    for czf_, cz in enc_holders:
        comp = [M.callee(t) for _, t in cz.calls(re.compile(r"Compression"))]
        r1.site("writer compression: %s" % [L.short(c) for c in comp], cz.rec["span"])
        isdef = lambda c: re.search(r"Compression as core::default::Default>::default$|Compression::default$", c) is not None  # noqa: E731
        r1.require(bool(comp) and all(isdef(c) for c in comp), ("compress_zlib", "compression-level"), "the writer does not always use Compression::default() (%s): the zlib header bytes — and with them the magic prefix the reader tests — change for some bitmaps" % [L.short(c) for c in comp if not isdef(c)])
    # and, on the decision table, every encoder is created with that level whatever the input
    for czf, _m in enc_holders:
        if F.hir(czf) is None:
            continue
        tabz = SR.Table(F, czf, opaque=r"ZlibEncoder(<.*>)?::new$|Compression::\w+$|Compression as core::default::Default>::default$|write_all$|finish$", rule=r1)
        okz = bool(tabz.paths)
        for q in tabz.paths:
            encs = q.calls(r"ZlibEncoder(<.*>)?::new$")
            for e in encs:
                lv = sym.term(e.args[1]) if len(e.args) > 1 else None
                good = isinstance(lv, tuple) and lv[:1] == ("call",) and re.search(r"default$", lv[1]) is not None and "Compression" in lv[1]
                if not r1.require(good, ("compress_zlib", "compression-level"), "an encoder is created with compression level %s: the header the reader's legacy test relies on is only written by Compression::default()" % sym.fmt(lv) if lv else "?"):
                    okz = False
            if not encs and SR.is_success(q.ret) and not SR.is_failure(q.ret):
                okz = False
                r1.fail(("compress_zlib", "compression-level"), "compress_zlib succeeds without a zlib encoder")
        r1.site("compress_zlib: every ZlibEncoder is created with Compression::default() on %d path(s): %s" % (len(tabz.paths), okz))
    r1.floor(3)

    # ------------------------------------------------------------------ R2 writer/reader pairing
    r2 = R.rule("C06-R2", "T7", "serialize ↔ deserialize use the same base (Base64Url), zlib both ways with complete writes, roaring serialize_into ↔ deserialize_from; to_endpoint ↔ try_from_endpoint share DATA_URL_PATTERN")
    ser = F.mir(RB + "::serialize_compressed_base64")
    de = F.mir(RB + "::deserialize_compressed_base64")
    if r2.anchor(ser, "serialize_compressed_base64") and r2.anchor(de, "deserialize_compressed_base64"):
        sb = base_variants(F.mir(RB + "::serialize_compressed_base64::{closure#0}", follow_async=False) or ser, r"BaseEncoding::encode$") or base_variants(ser, r"BaseEncoding::encode$")
        db = base_variants(de, r"BaseEncoding::decode$")
        r2.site("encode base %s; decode bases %s (legacy inner, then outer)" % (sb, db))
        r2.require(sb == ["Base64Url"], ("serialize", "base"), "the writer does not use Base64Url: %s" % sb)
        r2.require(db and db[-1] == "Base64Url" and sorted(db) == ["Base64", "Base64Url"], ("deserialize", "base"), "the reader does not decode Base64Url (after an optional legacy Base64 layer): %s" % db)
    def holders(pat):
        """(name, MIR) of the functions of the bitmap module that create the codec — wherever the step lives after a refactor"""
        out = []
        for p_, b_ in F.fn_bodies(crates=None):
            if p_.startswith(RB.rsplit("::", 1)[0] + "::") and "{closure" not in p_:
                m_ = F.mir(p_)
                if m_ is not None and m_.calls(re.compile(pat)):
                    out.append((p_.rsplit("::", 1)[-1], m_))
        return out
    for role, enc_re in (("compress_zlib", r"ZlibEncoder(<.*>)?::new$"), ("decompress_zlib", r"ZlibDecoder(<.*>)?::new$")):
        hs = holders(enc_re)
        if not r2.require(len(hs) >= 1, (role, "codec"), "no function of the bitmap module creates the %s" % ("zlib encoder" if role.startswith("comp") else "zlib decoder")):
            continue
        for name, b in hs:
            # the step may be spread over the function and its closures (`write_all(..).and_then(|()| decoder.finish())`)
            full_ = next((p_ for p_, _ in F.fn_bodies(crates=None) if p_.startswith(RB.rsplit("::", 1)[0] + "::") and p_.rsplit("::", 1)[-1] == name and "{closure" not in p_), None)
            clos = [F.mir(p_, follow_async=False) for p_, _ in F.fn_bodies(crates=None) if full_ and p_.startswith(full_ + "::{closure")] if full_ else []
            clos = [c_ for c_ in clos if c_ is not None]
            ctor = b.calls(re.compile(enc_re))
            wa_re, fin_re = re.compile(r"(^std::io::Write::write_all$|as std::io::Write>::write_all$)"), re.compile(r"::finish$")
            wa_c = [(c_, bi_, t_) for c_ in clos for bi_, t_ in c_.calls(wa_re)]
            fin_c = [(c_, bi_, t_) for c_ in clos for bi_, t_ in c_.calls(fin_re)]
            wa = b.calls(wa_re)
            fin = b.calls(fin_re)
            sw = L.short_write_sites(b) + [x for c_ in clos for x in L.short_write_sites(c_)]
            r2.site("%s: ctor×%d write_all×%d finish×%d unchecked short writes×%d" % (name, len(ctor), len(wa), len(fin), len(sw)), b.rec["span"])
            # two complete idioms: the writing codec (new(sink); write_all(input)?; finish()?) and, for the decoder, the reading codec
            # (new(input); read_to_end(&mut out)?) — which of them the pipeline really is, in which order and on what data, is decided on
            # the decision tables below; here only that the step is whole and its io::Results are looked at
            rte = b.calls(re.compile(r"(^std::io::Read::read_to_end$|as std::io::Read>::read_to_end$)")) if role.startswith("decomp") else []
            if rte and not fin and not wa:
                r2.site("%s: reading codec, read_to_end×%d" % (name, len(rte)))
                lim = b.calls(re.compile(r"(^std::io::Read::take$|as std::io::Read>::take$|Read::chain$)"))
                r2.require(not lim, (name, "codec"), "%s reads the inflated stream through `take`/`chain`: a silently truncated or extended stream is not the encoder's output" % name)
                for bi, t in rte:
                    import c01
                    use = c01.result_use(b, bi)
                    r2.require(use in ("propagated", "returned", "matched"), (RB + "::" + name, "io-result", "read_to_end", use), "%s: the io::Result of read_to_end is %s" % (name, use), t["sp"])
                continue
            r2.require(bool(ctor) and bool(fin or fin_c), (name, "codec"), "%s does not construct the zlib codec and finish it" % name)
            for bi, t in sw:
                r2.fail((RB + "::" + name, "short-write"), "%s feeds the codec with `Write::write` and never inspects the byte count: large inputs are truncated (use write_all)" % name, t["sp"])
            r2.require(bool(wa or wa_c) or bool(b.calls(L.IO_WRITE)), (name, "no-write"), "%s never writes its input into the codec" % name)
            for c_, bi, t in wa_c + fin_c:
                # inside a closure: its value is the closure's result, which a combinator hands on (that the combinator chain ends in `?`/a match
                # is what the pipeline tables below require: write_all ✓ and finish ✓ on every accepting path)
                import c01
                use = c01.result_use(c_, bi)
                r2.require(use in ("propagated", "returned", "matched"), (RB + "::" + name, "io-result", M.callee(t).rsplit("::", 1)[-1], use), "%s: the io::Result of %s is %s" % (name, L.short(M.callee(t)), use), t["sp"])
            for bi, t in fin + wa:
                import c01
                use = c01.result_use(b, bi)
                if use == "passed":
                    # handed to a Result combinator (`.and_then(..)`, `.map_err(..)`) — whether the chain's outcome is inspected is again the
                    # pipeline tables' business
                    nxt = [t2 for _, t2 in b.calls(re.compile(r"Result(<.*>)?::(and_then|map_err|map|or_else)$"))]
                    if nxt:
                        continue
                r2.require(use in ("propagated", "returned", "matched"), (RB + "::" + name, "io-result", M.callee(t).rsplit("::", 1)[-1], use), "%s: the io::Result of %s is %s" % (name, L.short(M.callee(t)), use), t["sp"])
    # the two pipelines on their decision tables (private helpers inlined, so it does not matter how the steps are split up):
    #   write: roaring serialize_into(self.0) ✓ → zlib(write_all ✓, finish ✓) → Base64Url
    #   read : Base64Url decode ✓ (after the optional legacy Base64 layer) → unzlib(write_all ✓, finish ✓) → roaring deserialize_from ✓
    POPQ = (r"RoaringBitmap::\w+$|Zlib(En|De)coder(<.*>)?::new$|write_all$|Write::write$|::finish$|read_to_end$|Read::take$|BaseEncoding::(en|de)code$|Compression::\w+$|Default>::default$|from_utf8$|serialized_size$")
    sfn = RB + "::serialize_compressed_base64"
    if F.hir(sfn) is not None:
        tabw = SR.Table(F, sfn, opaque=POPQ, rule=r2, inline_depth=5)
        okw = bool(tabw.ok())
        for q in tabw.ok():
            si = [e for e in q.calls(r"RoaringBitmap::serialize_into$") if q.succeeded(e) is True and SR.derives(e.args[0], SR.fld("0"))]
            wa = [e for e in q.calls(r"write_all$") if q.succeeded(e) is True]
            fin = [e for e in q.calls(r"::finish$") if q.succeeded(e) is True]
            enc = q.calls(r"BaseEncoding::encode$")
            zn = q.calls(r"ZlibEncoder(<.*>)?::new$")
            good = len(si) == 1 and len(zn) == 1 and len(wa) >= 1 and len(fin) == 1 and len(enc) == 1
            if good:
                buf = si[0].args[1]
                good = (any(SR.derives(e.args[0], zn[0].result.t) and (SR.derives(e.args[1], sym.term(buf)) or SR.derives(e.args[1], si[0].result.t)) for e in wa)
                        and SR.derives(fin[0].args[0], zn[0].result.t) and SR.derives(enc[0].args[0], fin[0].result.t) and SR.pure(q.ret, enc[0].result.t)
                        and "Base64Url" in str(enc[0].args[1]))
            if not r2.require(good, ("serialize", "pipeline"), "serialize pipeline is not roaring serialize_into(self) ✓ → zlib write_all ✓ / finish ✓ → Base64Url: %s" % [str(e)[:60] for e in q.events][:8]):
                okw = False
        r2.site("serialize: roaring → zlib → base64url on %d accepting path(s): %s" % (len(tabw.ok()), okw))
    dfn = RB + "::deserialize_compressed_base64"
    if F.hir(dfn) is not None:
        tabr = SR.Table(F, dfn, opaque=POPQ + r"|starts_with$", rule=r2, inline_depth=5)
        okr = bool(tabr.ok())
        for q in tabr.ok():
            dec = [e for e in q.calls(r"BaseEncoding::decode$") if q.succeeded(e) is True]
            wa = [e for e in q.calls(r"write_all$") if q.succeeded(e) is True]
            fin = [e for e in q.calls(r"::finish$") if q.succeeded(e) is True]
            zn = q.calls(r"ZlibDecoder(<.*>)?::new$")
            df = [e for e in q.calls(r"RoaringBitmap::deserialize_from$") if q.succeeded(e) is True]
            good = bool(dec) and "Base64Url" in str(dec[-1].args[1]) and len(zn) == 1 and bool(wa) and len(fin) == 1 and len(df) == 1
            rte = [e for e in q.calls(r"read_to_end$") if q.succeeded(e) is True]
            if good:
                outer = ("payload", dec[-1].result.t, "Ok", 0)
                good = (any(SR.derives(e.args[0], zn[0].result.t) and SR.derives(e.args[1], outer) for e in wa) and SR.derives(fin[0].args[0], zn[0].result.t)
                        and SR.derives(df[0].args[0], fin[0].result.t) and SR.derives(q.ret, df[0].result.t))
            elif bool(dec) and "Base64Url" in str(dec[-1].args[1]) and len(zn) == 1 and len(rte) == 1 and not wa and not fin and len(df) == 1:
                # the reading form: ZlibDecoder::new(<the decoded bytes>) read to its end — by the decoder itself, not through an adaptor — into
                # the buffer roaring then deserialises from
                outer = ("payload", dec[-1].result.t, "Ok", 0)
                good = (SR.derives(zn[0].args[0], outer) and SR.pure(rte[0].args[0], zn[0].result.t) and SR.derives(df[0].args[0], sym.term(rte[0].args[1]))
                        and SR.derives(q.ret, df[0].result.t))
            if not r2.require(good, ("deserialize", "pipeline"), "deserialize pipeline is not Base64Url decode ✓ → unzlib write_all ✓ / finish ✓ → roaring deserialize_from ✓: %s" % [str(e)[:60] for e in q.events][:9]):
                okr = False
        r2.site("deserialize: base64url → unzlib → roaring on %d accepting path(s): %s" % (len(tabr.ok()), okr))
    # DATA_URL_PATTERN shared
    te = F.hir(RB + "::to_endpoint")
    tf = F.hir(RB + "::try_from_endpoint")
    if r2.anchor(te, "to_endpoint") and r2.anchor(tf, "try_from_endpoint"):
        c1 = {x.get("res", {}).get("def") for x in H.walk(H.root(te)) if x.get("k") == "path"}
        c2 = {x.get("res", {}).get("def") for x in H.walk(H.root(tf)) if x.get("k") == "path"}
        pat = "identity_credential::revocation::revocation_bitmap_2022::bitmap::DATA_URL_PATTERN"
        r2.site("DATA_URL_PATTERN used by to_endpoint: %s, try_from_endpoint: %s" % (pat in c1, pat in c2))
        r2.require(pat in c1 and pat in c2, ("endpoint", "pattern"), "to_endpoint and try_from_endpoint do not share DATA_URL_PATTERN")
        env = H.Env(tf)
        sp = [n for n in H.walk(H.root(tf)) if n.get("k") == "mcall" and n["name"] == "strip_prefix"]
        r2.require(len(sp) == 1, ("try_from_endpoint", "strip_prefix"), "try_from_endpoint does not strip the data-url prefix")
        for c in H.calls(tf, RB + "::deserialize_compressed_base64"):
            oo = H.origins(c["args"][0], env, extra=re.compile(r"strip_prefix$|Url::as_str$"))
            r2.require(oo and all(o[:2] == ("param", "service_endpoint") for o in oo), ("try_from_endpoint", "data"), "the decoded data is not the endpoint's url without the prefix: %s" % sorted(map(str, oo)))
        env = H.Env(te)
        from c08 import format_calls
        fc = format_calls(te, env)
        ok = False
        for tpl, oo, node in fc:
            if tpl == [("arg",), ("arg",)] and len(oo) == 2 and oo[0] == {("def", pat)} and oo[1] == {("call", RB + "::serialize_compressed_base64")}:
                ok = True
        r2.require(ok, ("to_endpoint", "format"), "the endpoint is not DATA_URL_PATTERN followed by serialize_compressed_base64()")
    r2.floor(5)

    # ------------------------------------------------------------------ R3 read-modify-write
    r3 = R.rule("C06-R3", "T3+T2+T4", "update_revocation_bitmap writes back the bitmap decoded from the same service and touched only by the closure; revoke/unrevoke closures apply the operation to every index; revoke↔insert, unrevoke↔remove, is_revoked↔contains")
    fn = EXT + "::update_revocation_bitmap"
    if r3.anchor(F.hir(fn), fn):
        OPQ = r"Queryable.*::query(_mut)?$|service_mut_unchecked$|RevocationBitmap as core::convert::TryFrom|RevocationBitmap::to_endpoint$|service_endpoint_mut$"
        tab = SR.Table(F, fn, opaque=OPQ, rule=r3)
        DOC, QRY = SR.param("document"), SR.param("service_query")
        n = 0
        for q in tab.ok():
            n += 1
            qs = [e for e in q.calls(r"query_mut$") if q.succeeded(e) is True]
            if not r3.require(len(qs) == 1 and SR.derives(qs[0].args[0], DOC) and sym.term(qs[0].args[1]) == QRY, (fn, "query"), "the service is not looked up in the document with service_query"):
                continue
            svc = ("payload", qs[0].result.t, "Some", 0)
            dec = [e for e in q.calls(r"RevocationBitmap as core::convert::TryFrom") if q.succeeded(e) is True]
            if not r3.require(len(dec) == 1 and sym.term(dec[0].args[0]) == svc, (fn, "decode-source"), "the bitmap is not decoded from the queried service (exactly once, error propagated)"):
                continue
            bm = ("payload", dec[0].result.t, "Ok", 0)
            idx = {id(e): i for i, e in enumerate(q.events)}
            pnames = [sym.param_name(F, fn, i_) for i_ in range(len(F.hir(fn).get("params", [])))]
            app = [e for e in q.events if e.kind == "call" and e.fn is None and e.name in pnames]   # a call of the closure parameter
            r3.require(len(app) == 1 and sym.term(app[0].args[0]) == bm, (fn, "apply"), "the update closure is not applied exactly once to the decoded bitmap")
            enc = [e for e in q.calls(r"RevocationBitmap::to_endpoint$") if q.succeeded(e) is True and sym.term(e.args[0]) == bm]
            if not r3.require(len(enc) == 1, (fn, "write-back-args"), "the value written back is not to_endpoint()? of the updated bitmap"):
                continue
            newep = ("payload", enc[0].result.t, "Ok", 0)
            # the write: mem::swap(service.service_endpoint_mut(), &mut endpoint) or `*service.service_endpoint_mut() = endpoint`
            places = [e for e in q.calls(r"service_endpoint_mut$") if sym.term(e.args[0]) == svc]
            wr = []
            for e in q.events:
                if e.kind == "call" and (e.fn or "").endswith("core::mem::swap") and places and sym.term(e.args[0]) == places[0].result.t and sym.term(e.args[1]) == newep:
                    wr.append(e)
                if e.kind == "write" and places and sym.term(e.args[0]) == places[0].result.t and sym.term(e.args[1]) == newep:
                    wr.append(e)
            if r3.require(len(wr) == 1, (fn, "write-back"), "the new endpoint is not stored exactly once into the same service"):
                r3.require(app and idx[id(app[0])] < idx[id(enc[0])] < idx[id(wr[0])], (fn, "order"), "closure application, encoding and write-back are not in this order (the service must only change after a successful encode)")
        for q in tab.err():
            ws = [e for e in q.events if e.kind == "write" or (e.kind == "call" and (e.fn or "").endswith("core::mem::swap"))]
            r3.require(not ws, (fn, "write-on-error"), "the service is modified on a path that returns an error")
        r3.site("bitmap decoded from the service found by service_query")
        r3.site("update closure applied once, then to_endpoint()? then write-back into the same service (%d accepting path(s))" % n)
        r3.require(n > 0 or not tab.paths, (fn, "no-success"), "update_revocation_bitmap has no accepting path")
    for fn, op in (("revoke_credentials", "revoke"), ("unrevoke_credentials", "unrevoke")):
        cands = F.find(r"^<identity_document::document::core_document::CoreDocument as identity_credential::revocation::revocation_bitmap_2022::document_ext::RevocationDocumentExt>::%s$" % fn)
        if not r3.require(bool(cands), (fn, "ANCHOR"), "%s not found" % fn):
            continue
        h = F.hir(cands[0])
        env = H.Env(h)
        up = H.calls(h, EXT + "::update_revocation_bitmap")
        if not r3.require(len(up) == 1, (fn, "delegates"), "%s does not delegate to update_revocation_bitmap" % fn):
            continue
        a = up[0]["args"]
        r3.require(H.origins(a[0], env) == {("param", "self")} and H.origins(a[1], env) == {("param", "service_query")}, (fn, "args"), "%s does not pass (self, service_query)" % fn)
        cl = H.strip(a[2])
        loops = L.for_loops({"value": cl.get("body")}) if cl.get("k") == "closure" else []
        ok = False
        if len(loops) == 1:
            it, pat, body, _ = loops[0]
            io = H.origins(it, env)
            ops = [n for n in H.walk(body) if n.get("k") == "mcall" and (H.fn_name(n) or "").startswith(RB + "::")]
            uncond = not L.block_guards(body) and not [n for n in H.walk(body) if n.get("k") in ("if", "break", "continue", "ret") or (n.get("k") == "match" and n.get("src") == "normal")]
            names = [n["name"] for n in ops]
            arg_ok = ops and any(o[0] == "closure_param" or o[0] == "local" for o in H.origins(ops[0]["args"][0], env))
            ok = io == {("param", "indices")} and names == [op] and uncond
            r3.site("%s: for credential in indices { bitmap.%s(*credential) } unconditional=%s" % (fn, names, uncond), up[0]["sp"])
        r3.require(ok, (fn, "every-index"), "%s does not apply `%s` to every element of `indices` unconditionally (early exit, skipped element or different operation)" % (fn, op))
        for n, oc in H.exits(h):
            r3.require(H.origins(n, env) == {("call", EXT + "::update_revocation_bitmap")}, (fn, "returns"), "%s does not return the result of update_revocation_bitmap" % fn)
    table = {"revoke": "insert", "unrevoke": "remove", "is_revoked": "contains"}
    for m, prim in table.items():
        b = F.mir(RB + "::" + m)
        if r3.anchor(b, RB + "::" + m):
            cs = [M.callee(t).rsplit("::", 1)[-1] for _, t in b.calls(re.compile(r"RoaringBitmap::"))]
            r3.site("RevocationBitmap::%s → RoaringBitmap::%s" % (m, cs))
            r3.require(cs == [prim], (RB + "::" + m, "primitive"), "RevocationBitmap::%s calls RoaringBitmap::%s, expected %s" % (m, cs, prim))
            h = F.hir(RB + "::" + m)
            env = H.Env(h)
            for c in H.calls(h, re.compile(r"RoaringBitmap::" + prim + "$")):
                a = H.call_args(c)
                r3.require(H.origins(a[0], env) == {("param", "self", "0")} and H.origins(a[1], env) == {("param", "index")}, (RB + "::" + m, "args"), "%s does not apply %s(index) to its own bitmap" % (m, prim))
    # resolve_revocation_bitmap, by abstract evaluation: every accepting path resolved the service with the given query in this
    # document ✓ and returns RevocationBitmap::try_from(that service)
    cands = F.find(r"RevocationDocumentExt>::resolve_revocation_bitmap$")
    if r3.require(bool(cands), ("resolve_revocation_bitmap", "ANCHOR"), "resolve_revocation_bitmap not found"):
        tab = SR.Table(F, cands[0], opaque=r"CoreDocument::resolve_service$|try_from$", rule=r3)
        okr = bool(tab.ok())
        for q in tab.ok():
            rs = q.calls(r"CoreDocument::resolve_service$")
            good = len(rs) == 1 and q.succeeded(rs[0]) is True and SR.pure(rs[0].args[0], SR.SELF) and SR.pure(rs[0].args[1], SR.param("query"))
            if not r3.require(good, (cands[0], "resolve"), "the bitmap service is not resolved with the given query in this document"):
                okr = False
                continue
            tf = [e for e in q.calls(r"try_from$") if e.args and SR.pure(e.args[0], ("payload", rs[0].result.t, "Some", 0))]
            if not r3.require(len(tf) == 1 and SR.pure(q.ret, tf[0].result.t), (cands[0], "decode"), "the resolved service is not decoded with RevocationBitmap::try_from"):
                okr = False
        r3.site("resolve_revocation_bitmap = RevocationBitmap::try_from(resolve_service(query)?): %s" % okr)
    # TryFrom<&Service>: the type list contains RevocationBitmap::TYPE, then try_from_endpoint(service_endpoint())
    cands = F.find(r"^<identity_credential::revocation::revocation_bitmap_2022::bitmap::RevocationBitmap as core::convert::TryFrom<&identity_document::service::service::Service>>::try_from$")
    if r3.require(bool(cands), ("TryFrom<&Service>", "ANCHOR"), "TryFrom<&Service> for RevocationBitmap not found"):
        tab = SR.Table(F, cands[0], opaque=r"try_from_endpoint$|Service::(type_|service_endpoint)$|contains$", rule=r3)
        ev_ = sym.Evaluator(F)
        TYPE = ev_.const_value(RB + "::TYPE")
        okt = bool(tab.ok())
        SV = SR.param("service")
        for q in tab.ok():
            cs = [e for e in q.calls(r"contains$") if q.succeeded(e) is True and len(e.args) == 2 and e.args[1] == TYPE
                  and SR.pure(e.args[0], ("call", "identity_document::service::service::Service::type_", (SV,)))]
            if not r3.require(bool(cs), (cands[0], "type-check"), "the service type is not required to contain RevocationBitmap2022"):
                okt = False
            te = q.calls(r"try_from_endpoint$")
            good = len(te) == 1 and SR.pure(te[0].args[0], ("call", "identity_document::service::service::Service::service_endpoint", (SV,))) and SR.pure(q.ret, te[0].result.t)
            if not r3.require(good, (cands[0], "returns"), "TryFrom<&Service> does not decode the service endpoint"):
                okt = False
        r3.site("TryFrom<&Service>: type_ contains TYPE, then try_from_endpoint(service_endpoint()): %s" % okt)
    r3.floor(9)

    # ------------------------------------------------------------------ R4 status entry
    r4 = R.rule("C06-R4", "T8+T6", "RevocationBitmapStatus::try_from, on its decision table: accepted only with type == TYPE, the revocationBitmapIndex property present, a string, parsed as u32 ✓, and every `index` query pair of the id parsed ✓ and equal to it; the status wrapped is the validated one; index() returns the parse of that same property of the wrapped status and nothing else")
    cands = F.find(r"^<identity_credential::credential::revocation_bitmap_status::RevocationBitmapStatus as core::convert::TryFrom<identity_credential::credential::status::Status>>::try_from$")
    OPQ4 = r"try_index_to_u32$|query_pairs$|Map(<.*>)?::get$|::get$"
    ev4 = sym.Evaluator(F)
    IDXP = ev4.const_value(RBS + "::INDEX_PROPERTY")
    TYPEC = ev4.const_value(RBS + "::TYPE")
    if r4.require(bool(cands), ("RevocationBitmapStatus::try_from", "ANCHOR"), "TryFrom<Status> not found"):
        fn = cands[0]
        tab = SR.Table(F, fn, opaque=OPQ4, rule=r4)
        ST = SR.param("status")
        okf = bool(tab.ok())
        saw_mismatch = False
        for q in tab.paths:
            gets = [e for e in q.calls(r"::get$") if SR.pure(e.args[0], SR.fld("properties", base=ST)) and e.args[1] == IDXP]
            tis = q.calls(r"try_index_to_u32$")
            prop = [e for e in tis if gets and SR.derives(e.args[0], ("payload", gets[0].result.t, "Some", 0))]
            qidx = [e for e in tis if SR.derives(e.args[0], SR.fld("id", base=ST))]
            if SR.is_failure(q.ret):
                # a query index that parsed but differs from the property → rejected
                if prop and qidx and q.succeeded(prop[0]) is True and q.succeeded(qidx[0]) is True:
                    neq = [c for (a, c, _, _) in q.decisions if a[0] == "eq" and {("payload", prop[0].result.t, "Ok", 0), ("payload", qidx[0].result.t, "Ok", 0)} == {a[1], a[2]}]
                    if neq == [False]:
                        saw_mismatch = True
                continue
            where = q.describe()[-200:]
            t_ok = any(a[0] == "eq" and c is True and {sym.term(TYPEC), SR.fld("type_", base=ST)} == {a[1], a[2]} for (a, c, _, _) in q.decisions)
            if not r4.require(t_ok, (fn, "type-eq"), "a status of another type can be accepted as RevocationBitmapStatus — …%s" % where):
                okf = False
            if not r4.require(bool(gets) and q.succeeded(gets[0]) is True and bool(prop) and q.succeeded(prop[0]) is True, (fn, "index-parsed"), "Ok is reachable without the index property having been parsed as u32"):
                okf = False
                continue
            strv = q.variant.get(("payload", gets[0].result.t, "Some", 0))
            if not r4.require(strv == "String", (fn, "index-string"), "a non-string index property is not rejected"):
                okf = False
            for e in qidx:
                good = q.succeeded(e) is True and any(a[0] == "eq" and c is True and {("payload", prop[0].result.t, "Ok", 0), ("payload", e.result.t, "Ok", 0)} == {a[1], a[2]} for (a, c, _, _) in q.decisions)
                if not r4.require(good, (fn, "query-index"), "an `index` query pair different from revocationBitmapIndex is not rejected"):
                    okf = False
            out = q.ret.fields[0] if isinstance(q.ret, sym.V) and q.ret.fields else None
            inner = out.f.get("0") if isinstance(out, sym.St) else (out.fields[0] if isinstance(out, sym.V) and out.fields else out)
            if not r4.require(inner is not None and SR.pure(inner, ST), (fn, "wraps"), "the status wrapped is not the validated one"):
                okf = False
        r4.require(saw_mismatch or not tab.paths, (fn, "query-index"), "no path rejects an `index` query pair that differs from revocationBitmapIndex (the id's query is not examined)")
        r4.site("try_from: type ✓, property present/string/parsed ✓, every index query pair equal, wraps the status: %s" % (okf and saw_mismatch))
    fn = RBS + "::index"
    if r4.anchor(F.hir(fn), fn):
        tab = SR.Table(F, fn, opaque=OPQ4, rule=r4)
        PROPS = SR.fld("properties", base=SR.fld("0"))
        oki = False
        for q in tab.paths:
            if SR.is_failure(q.ret):
                continue
            gets = [e for e in q.calls(r"::get$") if SR.pure(e.args[0], PROPS) and e.args[1] == IDXP and q.succeeded(e) is True]
            tis = [e for e in q.calls(r"try_index_to_u32$") if gets and SR.derives(e.args[0], ("payload", gets[0].result.t, "Some", 0))]
            good = bool(tis) and SR.pure(q.ret, tis[0].result.t) and not any(SR.derives(e.args[0], SR.fld("id", base=SR.fld("0"))) for e in q.calls(r"try_index_to_u32$"))
            if r4.require(good, (fn, "property"), "index() does not return the parse of the wrapped status's INDEX_PROPERTY (the value try_from validated): %s" % (q.ret,)):
                oki = True
        r4.require(oki or not tab.paths, (fn, "property"), "index() does not read INDEX_PROPERTY")
        r4.site("RevocationBitmapStatus::index = try_index_to_u32(self.0.properties[INDEX_PROPERTY] as String): %s" % oki)
    r4.floor(2)
