"""usage: symdump.py <fn-regex> [opaque-regex]  — print the decision table the abstract evaluator derives for a function."""
import re, sys, os
sys.path.insert(0, os.path.dirname(os.path.abspath(__file__)))
import extract, sym
from facts import Facts
d, _ = extract.extract(os.environ.get("VERIF_CONFIG", "workspace"))
F = Facts(d)
rx = re.compile(sys.argv[1])
opq = sys.argv[2] if len(sys.argv) > 2 else None
for p in sorted(F.bodies):
    if rx.search(p) and "{closure" not in p and F.hir(p):
        print("==", p)
        try:
            paths = sym.explore(F, p, opaque=opq)
        except Exception as e:
            print("  !!", type(e).__name__, e)
            continue
        for q in paths:
            print("  %-28s %s %s" % (q.outcome() + ("" if q.complete else " [INCOMPLETE: %s]" % q.note), q.describe()[:300], ""))
            for e in q.events:
                print("       · %s%s" % (repr(e)[:200], {True: " ✓", False: " ✗", None: ""}[q.succeeded(e)] if e.kind == "call" else ""))
