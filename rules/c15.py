"""C15 — Shipped key stores honour the key-storage contract over every operation history."""
import re

import hir as H
import mir as M
import rulelib as L
import c01
import sym
import symrules as SR
import c15model as CM

CRATES = ["identity_storage", "identity_stronghold", "identity_jose"]
KIM = "identity_storage::key_id_storage::memstore::KeyIdMemstore"
JMS = "identity_storage::key_storage::memstore::JwkMemStore"
SH = "identity_stronghold::storage::StrongholdStorage"
KIS = "identity_storage::key_id_storage::key_id_storage::KeyIdStorage"
JS = "identity_storage::key_storage::jwk_storage::JwkStorage"
JWK = "identity_jose::jwk::key::Jwk"

LOCK_ACQ = re.compile(r"(RwLock(<.*>)?::(write|read|try_write|try_read)|shared::Shared::(write|read)|Mutex(<.*>)?::(lock|try_lock)|StrongholdStorage::get_stronghold)$")


def impl_fn(F, ty, trait, name):
    c = F.find(r"^<%s as %s>::%s$" % (re.escape(ty), re.escape(trait), name))
    return c[0] if c else None


def run(F, R, tier):
    R.undecided += ["freshness/uniqueness of random key ids", "signatures verifying under exactly one stored key (cryptography)",
                    "real thread schedules: R1 is the structural necessary condition for the race clause (one exclusive guard live across check and insert), not an exploration of schedules"]

    # ------------------------------------------------------------------ R1 atomic check-then-insert
    r1 = R.rule("C15-R1", "T10", "insert_key_id: a single exclusive guard is acquired once and both the membership test and the insertion go through it; the insertion is reachable only on the not-present edge")
    for ty, contains_re, insert_re, excl in ((KIM, r"HashMap(<.*>)?::contains_key$", r"HashMap(<.*>)?::insert$", ("write",)),
                                            (SH, r"Store::contains_key$", r"Store::insert$", ("get_stronghold", "lock"))):
        fn = impl_fn(F, ty, KIS, "insert_key_id")
        if not r1.require(fn is not None, (ty, "insert_key_id", "ANCHOR"), "insert_key_id of %s not found" % L.short(ty)):
            continue
        body = F.mir(fn)
        if not r1.anchor(body, fn):
            continue
        acq = body.calls(LOCK_ACQ)
        names = [M.callee(t).rsplit("::", 1)[-1] for _, t in acq]
        r1.site("%s::insert_key_id acquires %s" % (L.short(ty), names), body.rec["span"])
        r1.require(len(acq) == 1 and names[0] in excl, (fn, "single-exclusive-guard"),
                   "insert_key_id acquires %s; the membership test and the insertion must happen under one exclusive guard acquired once (a read guard for the test and a later write guard lets two racing inserts both succeed)" % names)
        cks = body.calls(re.compile(contains_re))
        ins = body.calls(re.compile(insert_re))
        entry_api = False
        if not cks and not ins:
            # the map's entry API: `match map.entry(k) { Occupied(_) => Err, Vacant(slot) => slot.insert(v) }` — test and insertion
            # are one operation on the same borrow, and VacantEntry::insert exists only for an absent key
            cks = body.calls(re.compile(r"HashMap(<.*>)?::entry$|BTreeMap(<.*>)?::entry$"))
            ins = body.calls(re.compile(r"(hash_map|btree_map|map)::(entry::)?VacantEntry(<.*>)?::insert(_entry)?$|VacantEntry(<.*>)?::insert$"))
            entry_api = bool(cks) and bool(ins)
        if not r1.require(len(cks) == 1 and len(ins) == 1, (fn, "ops"), "expected one membership test and one insertion (contains_key + insert, or entry + VacantEntry::insert), found %d/%d" % (len(cks), len(ins))):
            continue
        if acq:
            tainted = body.taint_forward({M.place_local(acq[0][1]["dst"])}, extra_through=re.compile(r"(get_client|Client::store|::store|Deref(Mut)?::deref(_mut)?|::as_ref|::clone)$"))
            if entry_api:
                tainted = body.taint_forward({M.place_local(acq[0][1]["dst"])}, extra_through=re.compile(r"(get_client|Client::store|::store|Deref(Mut)?::deref(_mut)?|::as_ref|::clone|Map(<.*>)?::entry)$"))
            for lab, (bi, t) in (("contains_key", cks[0]), ("insert", ins[0])):
                recv = M.op_local(t["args"][0])
                r1.require(recv in tainted, (fn, "through-guard", lab), "the %s does not go through the acquired guard" % lab, t["sp"])
            # the guard is not released between the test and the insertion
            gl = M.place_local(acq[0][1]["dst"])
            guard_locals = {l for l in tainted if re.match(r"^(tokio::sync::|std::sync::)?[A-Za-z_:]*(RwLockWriteGuard|RwLockReadGuard|MutexGuard)<", body.locals[l]["ty"])}
            # temporaries that are moved into the final guard binding (`guard = move tmp`) are dropped as moved-from no-ops in mir_built
            moved_tmp = {M.op_local(s_["rv"]["op"]) for b_ in body.blocks for s_ in b_["s"] if s_["k"] == "assign" and s_["rv"]["k"] == "use" and "mv" in s_["rv"]["op"] and not M.place_proj(s_["rv"]["op"]["mv"])}
            guard_locals -= moved_tmp
            drops = [bi for bi, b in enumerate(body.blocks) if not b["cleanup"] and b["t"]["k"] == "drop" and M.place_local(b["t"]["place"]) in guard_locals]
            reach_from_drops = set()
            for d in drops:
                reach_from_drops |= body.reachable(d)
            r1.require(ins[0][0] not in reach_from_drops, (fn, "guard-released-early"), "the guard can be dropped before the insertion", ins[0][1]["sp"])
            r1.site("guard locals %s; drops at %s; insertion after a drop: %s" % (sorted(guard_locals), drops, ins[0][0] in reach_from_drops))

        def classify(root, b):
            if root[0] == "call" and re.search(contains_re, M.callee(root[1])):
                return "present"
            if root[0] in ("place", "local"):
                l = M.place_local(root[1]) if root[0] == "place" else root[1]
                locs, calls, _ = b.backward_slice([l])
                if any(re.search(contains_re, M.callee(c)) for _, c in calls):
                    return "present"
            return None
        atoms = M.switch_atoms(body, classify)
        vals = M.path_valuations(body, atoms, [ins[0][0]])[ins[0][0]]
        okp = bool(vals) and all(("present", False) in v for v in vals)
        if entry_api:
            # VacantEntry::insert is only reachable with the Vacant variant of the entry obtained from the single entry() call
            recv = M.op_local(ins[0][1]["args"][0])
            locs, calls_, _ = body.backward_slice([recv]) if recv is not None else (set(), [], None)
            okp = any(re.search(r"Map(<.*>)?::entry$", M.callee(c_) or "") for _, c_ in calls_)
        r1.site("insertion reached only with present == false: %s" % okp, ins[0][1]["sp"])
        r1.require(okp, (fn, "insert-if-absent"), "the insertion is reachable without the membership test having returned false")
        # the key tested is the key inserted
        h = F.bodies[fn].get("hir")
        if h:
            env = H.Env(h)
            errs = {e.outcome for e in L.exit_infos(h)[1]}
            r1.require(any("KeyIdAlreadyExists" in H.called_variants(h) for _ in [0]) if hasattr(H, "called_variants") else True, (fn, "x"), "")
            allv = {H.variant_name(x.get("res", {})) for x in H.walk(H.root(h)) if x.get("k") == "path"}
            r1.require("KeyIdAlreadyExists" in allv, (fn, "error"), "a second insert does not report KeyIdAlreadyExists")
    r1.floor(5)

    # ------------------------------------------------------------------ R2 generate
    r2 = R.rule("C15-R2", "T2+T3", "generate: key/alg compatibility ✓ dominates key creation; alg = requested alg, kid = RFC 7638 thumbprint, set before the public projection is returned")
    fn = impl_fn(F, JMS, JS, "generate")
    if r2.require(fn is not None, (JMS, "generate", "ANCHOR"), "generate of JwkMemStore not found"):
        # by abstract evaluation on the map model: an accepting path checked key/alg compatibility for the requested pair, set
        # alg = name(requested alg) and then kid = thumbprint of that same key before projecting it, stored exactly (fresh id → that
        # key) and returns JwkGenOutput::new(that id, to_public(that key)); a rejecting path leaves the map alone
        GOPQ = (r"MemStoreKeyType as core::convert::TryFrom<.*>>::try_from$|check_key_alg_compatibility$|SecretKey::(generate|public_key)$|random_key_id$|encode_jwk$|"
                r"Jwk::(set_alg|set_kid|thumbprint_sha256_b64|to_public)$|JwsAlgorithm::name$|JwkGenOutput::new$")
        ev = sym.Evaluator(F, opaque=GOPQ, inline_depth=6, concrete_vec=True)

        def fin(p_, a):
            p_.final = CM.final_map(a, "jwk_store")
        try:
            paths = ev.explore(fn, args=lambda: [CM.store(JMS, "jwk_store"), CM.P("key_type"), CM.P("alg")], finalize=fin)
        except (sym.Abort, sym.TooManyPaths) as e:
            paths = []
            r2.fail((fn, "not-evaluable"), "JwkMemStore::generate could not be evaluated: %s" % e)
        n_ok = 0
        def collides(q):
            """the world in which the freshly drawn id equals an id already in the store (freshness of random ids is not decided here)"""
            return any(a[0] == "eq" and c and any("random_key_id" in sym.fmt(x) for x in (a[1], a[2])) for (a, c, _, _) in q.decisions)
        for q in paths:
            if isinstance(q.ret, sym.V) and q.ret.name == "Panic":
                continue       # the `expect` on to_public(): C05's business (REVIEWED: OKP keys always project)
            if collides(q):
                continue
            if not q.complete or getattr(q, "final", None) is None:
                r2.fail((fn, "not-evaluable"), "JwkMemStore::generate: a path could not be evaluated to the end (%s)" % q.note)
                continue
            added = {k: v for k, v in q.final.items() if k not in CM.INITIAL}
            kept = all(q.final.get(k) == v for k, v in CM.INITIAL.items())
            if SR.is_failure(q.ret):
                r2.require(not added and kept, (fn, "store-on-error"), "generate returns an error after changing the store")
                continue
            n_ok += 1
            cc = [e for e in q.calls(r"check_key_alg_compatibility$") if q.succeeded(e) is True and SR.pure(e.args[1], CM.P("alg").t)]
            r2.require(bool(cc), (fn, "compat"), "generate can succeed without check_key_alg_compatibility(key_type, alg) for the requested algorithm")
            enc = q.calls(r"encode_jwk$")
            sa, sk, tp, pub, rk = q.calls(r"Jwk::set_alg$"), q.calls(r"Jwk::set_kid$"), q.calls(r"Jwk::thumbprint_sha256_b64$"), q.calls(r"Jwk::to_public$"), q.calls(r"random_key_id$")
            if not r2.require(len(enc) == 1 and len(sa) == 1 and len(sk) == 1 and len(pub) == 1 and len(rk) == 1 and tp, (fn, "alg-kid"), "generate does not set alg and kid exactly once on the encoded key"):
                continue
            J = enc[0].result.t
            nm = sym.term(sa[0].args[1])
            r2.require(SR.pure(sa[0].args[0], J) and isinstance(nm, tuple) and nm[:1] == ("call",) and nm[1].endswith("JwsAlgorithm::name") and SR.pure(nm[2][0], CM.P("alg").t), (fn, "alg-source"), "the JWK's alg is not the requested algorithm: %s" % sym.fmt(nm))
            r2.require(SR.pure(sk[0].args[0], J) and any(SR.pure(sk[0].args[1], t_.result.t) and SR.pure(t_.args[0], J) for t_ in tp), (fn, "kid-source"), "the JWK's kid is not the SHA-256 thumbprint of the key being returned")
            order = [e for e in q.events if e in (sa[0], sk[0], pub[0]) or e in tp]
            names_ = [e.name for e in order]
            r2.require(names_.index("set_alg") < names_.index("thumbprint_sha256_b64") < names_.index("set_kid") < names_.index("to_public"), (fn, "order"), "alg/kid are not set (alg before the thumbprint) before the public projection is taken: %s" % names_)
            r2.require(SR.pure(pub[0].args[0], J), (fn, "returns-public"), "the key projected is not the key generated")
            KID = rk[0].result.t
            stored = [(k, v) for k, v in added.items()]
            r2.require(kept and len(stored) == 1 and SR.pure(stored[0][1], J) and stored[0][0] == sym.fmt(KID), (fn, "stores"), "generate does not store exactly (fresh key id → the generated key): %s" % {k: sym.fmt(v) for k, v in added.items()})
            out = q.ret.fields[0] if isinstance(q.ret, sym.V) and q.ret.fields else None
            ot = sym.term(out) if out is not None else None
            r2.require(isinstance(ot, tuple) and ot[:1] == ("call",) and ot[1].endswith("JwkGenOutput::new") and SR.pure(ot[2][0], KID) and SR.derives(ot[2][1], pub[0].result.t), (fn, "returns-public"), "generate does not return JwkGenOutput::new(the stored id, to_public(the stored key))")
        r2.site("JwkMemStore::generate: compat ✓, alg/kid set in order, (fresh id → key) stored, public projection returned on %d accepting path(s)" % n_ok)
        r2.require(n_ok >= 1 or not paths, (fn, "never-succeeds"), "JwkMemStore::generate has no accepting path")
    for ty in (SH,):
        fn = impl_fn(F, ty, JS, "generate")
        if not r2.require(fn is not None, (ty, "generate", "ANCHOR"), "generate of %s not found" % L.short(ty)):
            continue
        h = F.bodies[fn].get("hir")
        env = H.Env(h)
        tree, infos = L.exit_infos(h)
        for e in infos:
            if not L.is_success_exit(e):
                continue
            tried = {(H.fn_name(c) or "").rsplit("::", 1)[-1] for c in e.tried}
            r2.site("%s::generate success after %s" % (L.short(ty), sorted(t for t in tried if "check" in t or "try_from" in t)), e.node.get("sp"))
            r2.require("check_key_alg_compatibility" in tried, (fn, "compat"), "generate can succeed without check_key_alg_compatibility(key_type, alg)")
        sa = [n for n in H.walk(H.root(h)) if n.get("k") == "mcall" and n["name"] == "set_alg"]
        sk = [n for n in H.walk(H.root(h)) if n.get("k") == "mcall" and n["name"] == "set_kid"]
        if r2.require(len(sa) == 1 and len(sk) == 1, (fn, "alg-kid"), "generate does not set alg and kid exactly once"):
            ao = H.origins(sa[0]["args"][0], env, accessors=re.compile(r"JwsAlgorithm::name$"))
            ko = H.origins(sk[0]["args"][0], env)
            r2.site("alg ← %s; kid ← %s" % (sorted(map(str, ao)), sorted(map(str, ko))), sa[0]["sp"])
            r2.require(ao == {("param", "alg", "name")}, (fn, "alg-source"), "the JWK's alg is not the requested algorithm")
            r2.require(ko == {("call", JWK + "::thumbprint_sha256_b64")}, (fn, "kid-source"), "the JWK's kid is not its SHA-256 thumbprint")
            tp = H.calls(h, JWK + "::thumbprint_sha256_b64")
            r2.require(tp and H.local_name(H.call_args(tp[0])[0]) == H.local_name(sk[0]["recv"]), (fn, "kid-same-key"), "the thumbprint is not taken of the key being returned")
            # alg is set before the thumbprint / projection are taken (statement order)
            order = [n for n in H.walk(H.root(h)) if n.get("k") == "mcall" and n["name"] in ("set_alg", "set_kid", "to_public")]
            r2.require([n["name"] for n in order][:2] == ["set_alg", "set_kid"], (fn, "order"), "alg/kid are not set before the public projection is taken")
    # the compatibility table itself: a JWS algorithm is accepted for a key type only in the pairs below (BLS12381G2 keys are for BBS+
    # proofs, no JWS algorithm goes with them)
    COMPATIBLE = {("Ed25519", "EdDSA")}
    cfn = "identity_storage::key_storage::memstore::check_key_alg_compatibility"
    if r2.anchor(F.hir(cfn), cfn):
        tabk = SR.Table(F, cfn, opaque=r"KeyStorageError::new$|with_custom_message$|fmt::format$", rule=r2)
        acc = set()
        for q in tabk.paths:
            if SR.is_success(q.ret) and not SR.is_failure(q.ret):
                kt_, al_ = SR.variant(q, SR.param(sym.param_name(F, cfn, 0, "key_type"))), SR.variant(q, SR.param(sym.param_name(F, cfn, 1, "alg")))
                acc.add((kt_, al_))
        r2.site("check_key_alg_compatibility accepts %s" % sorted(acc, key=str))
        r2.require(acc == COMPATIBLE or not tabk.paths, (cfn, "compatible-pairs"), "check_key_alg_compatibility accepts %s, the compatible (key type, algorithm) pairs are %s" % (sorted(acc, key=str), sorted(COMPATIBLE)))
    r2.floor(4)

    # ------------------------------------------------------------------ R3 insert
    r3 = R.rule("C15-R3", "T2+T9", "insert: key type ✓, is_private() ✓, alg present ∧ parsed ∧ compatible ✓ all dominate the store write; no parse error is swallowed")
    fn = impl_fn(F, JMS, JS, "insert")
    if r3.require(fn is not None, (JMS, "insert", "ANCHOR"), "insert of JwkMemStore not found"):
        IOPQ = r"MemStoreKeyType as core::convert::TryFrom<.*>>::try_from$|check_key_alg_compatibility$|random_key_id$|Jwk::(is_private|is_public|alg)$|FromStr>::from_str$|FromStr::from_str$"
        ev = sym.Evaluator(F, opaque=IOPQ, inline_depth=6, concrete_vec=True)

        def fin3(p_, a):
            p_.final = CM.final_map(a, "jwk_store")
        try:
            paths = ev.explore(fn, args=lambda: [CM.store(JMS, "jwk_store"), CM.P("jwk")], finalize=fin3)
        except (sym.Abort, sym.TooManyPaths) as e:
            paths = []
            r3.fail((fn, "not-evaluable"), "JwkMemStore::insert could not be evaluated: %s" % e)
        n_ok = 0
        JW = CM.P("jwk").t
        for q in paths:
            if any(a[0] == "eq" and c and any("random_key_id" in sym.fmt(x) for x in (a[1], a[2])) for (a, c, _, _) in q.decisions):
                continue       # the fresh id collides with a stored one: freshness of random ids is not decided here
            if not q.complete or getattr(q, "final", None) is None:
                r3.fail((fn, "not-evaluable"), "JwkMemStore::insert: a path could not be evaluated to the end (%s)" % q.note)
                continue
            added = {k: v for k, v in q.final.items() if k not in CM.INITIAL}
            kept = all(q.final.get(k) == v for k, v in CM.INITIAL.items())
            if SR.is_failure(q.ret):
                r3.require(not added and kept, (fn, "write"), "insert returns an error after changing the store")
                continue
            n_ok += 1
            where = q.describe()[-160:]
            kt = [e for e in q.calls(r"MemStoreKeyType as core::convert::TryFrom<.*>>::try_from$") if q.succeeded(e) is True and SR.pure(e.args[0], JW)]
            r3.require(bool(kt), (fn, "key-type"), "a JWK of an unsupported key type can be inserted")
            priv = [e for e in q.calls(r"Jwk::is_private$") if q.succeeded(e) is True and SR.pure(e.args[0], JW)]
            r3.require(bool(priv), (fn, "private"), "a JWK that is not fully private can be inserted (`!jwk.is_private()` guard missing or weakened) — …%s" % where)
            al = [e for e in q.calls(r"Jwk::alg$") if SR.pure(e.args[0], JW) and q.variant.get(e.result.t) == "Some"]
            r3.require(bool(al), (fn, "alg-required"), "a JWK without alg is not rejected")
            fs = [e for e in q.calls(r"from_str$") if q.succeeded(e) is True and any(SR.pure(e.args[0], ("payload", a_.result.t, "Some", 0)) for a_ in al)]
            r3.require(bool(fs), (fn, "alg-parsed"), "the store write is reachable without the alg having been parsed successfully (an unparsable alg must be an error)")
            cc = [e for e in q.calls(r"check_key_alg_compatibility$") if q.succeeded(e) is True and any(SR.pure(e.args[1], ("payload", f_.result.t, "Ok", 0)) for f_ in fs) and any(SR.pure(e.args[0], ("payload", k_.result.t, "Ok", 0)) for k_ in kt)]
            r3.require(bool(cc), (fn, "alg-compatible"), "the store write is reachable without check_key_alg_compatibility(key type of the JWK, its parsed alg) having succeeded")
            rk = q.calls(r"random_key_id$")
            okw = kept and len(added) == 1 and len(rk) == 1 and list(added.values())[0] == JW and list(added.keys())[0] == sym.fmt(rk[0].result.t)
            r3.require(okw, (fn, "write"), "insert does not store exactly (fresh key id → the given JWK): %s" % {k: sym.fmt(v) for k, v in added.items()})
            out = q.ret.fields[0] if isinstance(q.ret, sym.V) and q.ret.fields else None
            r3.require(out is not None and rk and SR.pure(out, rk[0].result.t), (fn, "returns"), "insert does not return the id it stored the key under")
        # a failing alg parse is an error, not swallowed
        for q in paths:
            if q.complete and any(q.succeeded(e) is False for e in q.calls(r"from_str$")):
                r3.require(SR.is_failure(q.ret), (fn, "alg-parse-result", "swallowed"), "the result of parsing the alg is swallowed instead of being propagated")
        r3.site("JwkMemStore::insert: key type ✓, is_private ✓, alg present ∧ parsed ∧ compatible ✓, (fresh id → jwk) stored on %d accepting path(s)" % n_ok)
        r3.require(n_ok >= 1 or not paths, (fn, "never-succeeds"), "JwkMemStore::insert has no accepting path")
    for ty, write_re in ((SH, r"write_secret$"),):
        fn = impl_fn(F, ty, JS, "insert")
        if not r3.require(fn is not None, (ty, "insert", "ANCHOR"), "insert of %s not found" % L.short(ty)):
            continue
        h = F.bodies[fn].get("hir")
        env = H.Env(h)
        tree = H.Tree(h)
        ws = [n for n in H.walk(H.root(h)) if n.get("k") == "mcall" and re.search(write_re, H.fn_name(n) or "")]
        if not r3.require(len(ws) == 1, (fn, "write"), "expected one store write, found %d" % len(ws)):
            continue
        w = ws[0]
        pre = tree.preceding(w)
        tried = {(H.fn_name(c) or "").rsplit("::", 1)[-1] for c in H.tried_calls(pre)}
        conds = tree.path_conditions(w)
        priv = any(c[0] == "if" and c[2] is False and H.negated(c[1])[1] and (H.fn_name(H.strip(H.negated(c[1])[0])) or "") == JWK + "::is_private" for c in conds)
        r3.site("%s::insert write after %s; !is_private rejected: %s" % (L.short(ty), sorted(t for t in tried if t in ("try_from", "from_str", "check_key_alg_compatibility", "expand_secret_jwk")), priv), w["sp"])
        r3.require(priv, (fn, "private"), "a JWK that is not fully private can be inserted (`!jwk.is_private()` guard missing or weakened)")
        r3.require("from_str" in tried, (fn, "alg-parsed"), "the store write is reachable without the alg having been parsed successfully (an unparsable alg must be an error)")
        r3.require("check_key_alg_compatibility" in tried, (fn, "alg-compatible"), "the store write is reachable without check_key_alg_compatibility having succeeded")
        # None alg → Err: the match over jwk.alg()
        ms = [m for m in H.walk(H.root(h)) if m.get("k") == "match" and m.get("src") == "normal" and H.origins(m["scrut"], env, accessors=re.compile(r"Jwk::alg$")) == {("param", "jwk", "alg")}]
        okn = any(H.outcome(a["body"]).startswith("Err(") or H.diverges(a["body"]) for m in ms for a in m["arms"] if H.pat_str(a["pat"]) == "None")
        r3.require(okn, (fn, "alg-required"), "a JWK without alg is not rejected")
        body = F.mir(fn)
        if body is not None:
            for bi, t in body.calls(re.compile(r"JwsAlgorithm as core::str::traits::FromStr>::from_str$|FromStr::from_str$")):
                use = c01.result_use(body, bi)
                r3.site("%s::insert: from_str result %s" % (L.short(ty), use), t["sp"])
                r3.require(use in ("propagated", "returned"), (fn, "alg-parse-result", use), "the result of parsing the alg is %s instead of being propagated" % use, t["sp"])
    # the key-type classification insert relies on: Ok(Ed25519) only for an OKP key whose curve was decided to be Ed25519, Ok(BLS12381G2)
    # only for an EC key whose curve was decided to be BLS12381G2 — every other kty / curve is an error (no "any Ed curve will do")
    kfns = F.find(r"MemStoreKeyType as core::convert::TryFrom<&.*Jwk>>::try_from$")
    if r3.require(len(kfns) == 1, (JMS, "key-type", "ANCHOR"), "TryFrom<&Jwk> for MemStoreKeyType not found"):
        kfn = kfns[0]
        tabk = SR.Table(F, kfn, opaque=r"try_okp_params$|try_ed_curve$|try_ec_params$|try_ec_curve$|try_bls_curve$|KeyStorageError::\w+$", rule=r3)
        WANT = {"Ed25519": ("Okp", r"try_ed_curve$"), "BLS12381G2": ("Ec", r"try_bls_curve$")}
        seen = set()
        for q in tabk.ok():
            r_ = sym.term(q.ret)
            name = r_[2][1] if r_[:2] == ("ctor", "Ok") and len(r_) > 2 and isinstance(r_[2], tuple) and r_[2][:1] == ("ctor",) else None
            if not r3.require(name in WANT, (kfn, "key-type", "result"), "MemStoreKeyType::try_from returns %s" % sym.fmt(r_)[:80]):
                continue
            kty, cpat = WANT[name]
            kty_ok = any(v == kty and isinstance(t_, tuple) and t_[:1] == ("field",) and t_[-1] == "kty" for t_, v in q.variant.items())
            crv_ok = any(v == name and isinstance(t_, tuple) and t_[:1] == ("payload",) and isinstance(t_[1], tuple) and t_[1][:1] == ("call",) and re.search(cpat, t_[1][1])
                         for t_, v in q.variant.items())
            seen.add(name)
            r3.require(kty_ok and crv_ok, (kfn, "key-type", name), "MemStoreKeyType::try_from answers %s on a path that has not established kty = %s and curve = %s — path: %s" % (name, kty, name, q.describe()[:220]))
        r3.site("MemStoreKeyType::try_from: %s each only for its own kty and curve" % sorted(seen))
        r3.require(seen == set(WANT) or not tabk.paths, (kfn, "key-type", "rows"), "MemStoreKeyType::try_from does not show accepting rows for %s: %s" % (sorted(WANT), sorted(seen)))
    r3.floor(4)

    # ------------------------------------------------------------------ R4 the stores against a map model
    r4 = R.rule("C15-R4", "T8+T4", "the mem stores evaluated abstractly on a concrete map {k0→v0, k1→v1}: insert_key_id refuses a present key and adds exactly (key, value) otherwise; get_key_id/delete_key_id/delete/sign report KeyIdNotFound/KeyNotFound for an absent id and otherwise use/remove exactly the entry stored under it; exists answers membership; nothing else in the map changes; the Stronghold key-id store reports a missing id")
    def unchanged(fm):
        return fm == CM.INITIAL

    def j_insert(q, w, fm):
        if w == "?":
            return (("not-present-edge",), "insert_key_id does not compare the key with every stored entry before deciding (%s)" % q.describe()[:120])
        if w is not None:
            if not (SR.is_failure(q.ret) and SR.err_name(q.ret) in ("KeyIdAlreadyExists", "SingleStructError") and "KeyIdAlreadyExists" in str(q.ret) and unchanged(fm)):
                return (("not-present-edge",), "a key that is already present is not refused with KeyIdAlreadyExists leaving the map alone: returns %s, map %s" % (q.ret, sorted(fm)))
            return None
        want = dict(CM.INITIAL)
        want["key"] = ("param", "value")
        if not (SR.is_success(q.ret) and not SR.is_failure(q.ret) and fm == want):
            return (("inserts",), "an absent key is not stored as (key → value): returns %s, map %s" % (q.ret, {k: sym.fmt(v) for k, v in fm.items()}))
        return None

    def j_lookup(err, use):
        def judge(q, w, fm):
            if w == "?":
                return None if SR.is_failure(q.ret) and unchanged(fm) else (("key-arg",), "succeeds without having located the caller's id in the map (%s)" % q.describe()[:120])
            if w is None:
                if not (SR.is_failure(q.ret) and err in str(q.ret)):
                    # other rejections (wrong alg, …) may come first, but success is impossible
                    if not SR.is_failure(q.ret):
                        return (("not-found",), "an unknown id is not reported as %s: returns %s" % (err, q.ret))
                return None if unchanged(fm) else (("not-found",), "an unknown id changes the map: %s" % sorted(fm))
            return use(q, w, fm)
        return judge

    def use_get(q, w, fm):
        v = dict(CM.ENTRIES)[w]
        out = q.ret.fields[0] if isinstance(q.ret, sym.V) and q.ret.name == "Ok" and q.ret.fields else None
        if not (out is not None and SR.pure(out, ("param", v)) and unchanged(fm)):
            return (("key-arg",), "get_key_id(%s) does not return the value stored under it: %s" % (w, q.ret))
        return None

    def use_delete(q, w, fm):
        want = {k: v for k, v in CM.INITIAL.items() if k != w}
        if not (SR.is_success(q.ret) and not SR.is_failure(q.ret) and fm == want):
            return (("key-arg",), "deleting %s returns %s and leaves %s: not exactly that entry removed" % (w, q.ret, sorted(fm)))
        return None

    def use_sign(q, w, fm):
        if not unchanged(fm):
            return (("key-arg",), "sign changes the store")
        if SR.is_failure(q.ret):
            return None
        v = dict(CM.ENTRIES)[w]
        ex = q.calls(r"expand_secret_jwk$")
        if not (len(ex) == 1 and SR.pure(ex[0].args[0], ("param", v)) and q.succeeded(ex[0]) is True):
            return (("key-arg",), "sign(%s) succeeds without expanding the JWK stored under that id (expanded: %s)" % (w, [sym.fmt(sym.term(e.args[0])) for e in ex]))
        sg = [e for e in q.events if e.kind == "call" and (e.name == "sign" or (e.fn or "").endswith("::sign"))]
        if not (sg and SR.derives(sg[-1].args[0], ("payload", ex[0].result.t, "Ok", 0)) and any(SR.pure(a_, ("param", "data")) for a_ in sg[-1].args[1:]) and SR.derives(q.ret, sg[-1].result.t)):
            return (("key-arg",), "sign does not return the signature of `data` made with the stored key")
        return None

    def j_exists(q, w, fm):
        if w == "?" or not unchanged(fm):
            return (("membership",), "exists does not decide membership against the whole map, or changes it")
        out = q.ret.fields[0] if isinstance(q.ret, sym.V) and q.ret.name == "Ok" and q.ret.fields else None
        if out is not (w is not None):
            return (("membership",), "exists(%s) answers %s" % (w or "an unknown id", q.ret))
        return None
    SIGN_OPQ = r"Jwk::(alg|try_okp_params)$|FromStr>::from_str$|FromStr::from_str$|expand_secret_jwk$|SecretKey::sign$|::sign$|EdCurve::name$|JwsAlgorithm::name$|Signature::to_bytes$|to_bytes$"
    spec = [
        (KIM, KIS, "insert_key_id", "key_id_store", ["key", "value"], "key", j_insert, None, {"k0", "k1", None}),
        (KIM, KIS, "get_key_id", "key_id_store", ["key"], "key", j_lookup("KeyIdNotFound", use_get), None, {"k0", "k1", None}),
        (KIM, KIS, "delete_key_id", "key_id_store", ["key"], "key", j_lookup("KeyIdNotFound", use_delete), None, {"k0", "k1", None}),
        (JMS, JS, "delete", "jwk_store", ["key_id"], "key_id", j_lookup("KeyNotFound", use_delete), None, {"k0", "k1", None}),
        (JMS, JS, "exists", "jwk_store", ["key_id"], "key_id", j_exists, None, {"k0", "k1", None}),
        (JMS, JS, "sign", "jwk_store", ["key_id", "data", "public_key"], "key_id", j_lookup("KeyNotFound", use_sign), SIGN_OPQ, {"k0", "k1", None}),
    ]
    for ty, tr, name, field, argn, keyn, judge, opq, wantw in spec:
        fn = impl_fn(F, ty, tr, name)
        if not r4.require(fn is not None, (ty, name, "ANCHOR"), "%s::%s not found" % (L.short(ty), name)):
            continue
        ws = CM.run_op(F, r4, fn, ty, field, argn, keyn, judge, opaque=opq, label="%s::%s" % (L.short(ty), name))
        got = {w for w in ws if w != "?"}
        r4.site("%s::%s agrees with the map model in the worlds %s" % (L.short(ty), name, sorted(map(str, got))))
        r4.require(wantw <= got or not ws, (fn, "coverage"), "%s::%s: only the worlds %s were reached (expected key == k0, key == k1, absent)" % (L.short(ty), name, sorted(map(str, got))))
    # sign: an absent key is reported as KeyNotFound on some path
    # Stronghold key-id store (another backend: a Store behind a client, not a map): a missing id is reported
    for ty, tr, name, op_re, err in ((SH, KIS, "get_key_id", r"Store::get$", "KeyIdNotFound"), (SH, KIS, "delete_key_id", r"Store::delete$", "KeyIdNotFound")):
        fn = impl_fn(F, ty, tr, name)
        if not r4.require(fn is not None, (ty, name, "ANCHOR"), "%s::%s not found" % (L.short(ty), name)):
            continue
        h = F.bodies[fn].get("hir")
        env = H.Env(h)
        ops = [n for n in H.walk(H.root(h)) if n.get("k") == "mcall" and re.search(op_re, H.fn_name(n) or "")]
        ok = False
        for op in ops:
            tree = H.Tree(h)
            cur = op
            for _ in range(6):
                par = tree.parent.get(id(cur))
                if not par:
                    break
                p = par[0]
                if p.get("k") == "mcall" and p["name"] in ("ok_or", "ok_or_else"):
                    vs = {H.variant_name(x.get("res", {})) for x in H.walk(p["args"][0]) if x.get("k") == "path"}
                    if err in vs:
                        ok = True
                cur = p
        r4.site("%s::%s: absent → %s: %s" % (L.short(ty), name, err, ok))
        r4.require(ok, (fn, "not-found"), "%s::%s does not report %s for an unknown id" % (L.short(ty), name, err))
        for op in ops:
            ko = H.origins(op["args"][0], env, extra=re.compile(r"MethodDigest::pack$|::as_ref$")) if op.get("args") else set()
            r4.require(bool(ko) and all(o[0] == "param" for o in ko), (fn, "key-arg"), "%s::%s does not look up the caller's id: %s" % (L.short(ty), name, sorted(map(str, ko))))
    # Stronghold key store, delete: the client's `delete_secret` answers "the vault could be cleaned up" (revoke + garbage collection), not
    # "the record existed" — reviewed fact about iota_stronghold 2.1 (ClientVault::delete_secret = revoke_secret; cleanup).  Whether the
    # key id is known must therefore come from `record_exists` on the same location: on the decision table every path that reaches
    # delete_secret has record_exists(vault, key_id) ✓ = true behind it, and the = false row is Err(KeyNotFound) without any deletion.
    fn = impl_fn(F, SH, JS, "delete")
    if r4.require(fn is not None, (SH, "delete", "ANCHOR"), "StrongholdStorage::delete not found"):
        tabd = SR.Table(F, fn, opaque=r"get_stronghold$|get_client$|record_exists$|delete_secret$|revoke_secret$|persist_changes$|Client::vault$|Location::generic$|as_secret_manager$|KeyStorageError::\w+$", rule=r4)
        KID = SR.param(sym.param_name(F, fn, 1, "key_id"))
        rows = set()
        for q in tabd.paths:
            evs = [e for e in q.events if e.kind == "call"]
            ex = [e for e in evs if re.search(r"record_exists$", e.fn or "") and q.succeeded(e) is True and any(SR.derives(a, KID) for a in e.args)]
            known = [q.val.get(("truth", ("payload", e.result.t, "Ok", 0))) for e in ex]
            dels = [e for e in evs if re.search(r"(delete_secret|revoke_secret|revoke_data|delete_data)$", e.fn or "")]
            ok = SR.is_success(q.ret) and not SR.is_failure(q.ret)
            if dels:
                first = min(evs.index(e) for e in dels)
                gated = any(k is True and evs.index(e) < first for e, k in zip(ex, known))
                r4.require(gated, (fn, "exists-before-delete"), "StrongholdStorage::delete reaches the vault's delete_secret without record_exists(vault, key_id) ✓ = true: delete_secret's boolean does not say "
                           "whether the record existed, so an unknown or already deleted key id is \"deleted\" successfully — path: %s" % q.describe()[:200])
                r4.require(all(any(SR.derives(a, KID) for a in e.args) for e in dels), (fn, "key-arg"), "StrongholdStorage::delete does not delete the caller's key id")
                rows.add("deleted-ok" if ok else "deleted-err")
            elif False in known:
                r4.require(not ok and "KeyNotFound" in sym.fmt(sym.term(q.ret)), (fn, "not-found"), "StrongholdStorage::delete does not report KeyNotFound for a key id whose record does not exist (%s)" % sym.fmt(sym.term(q.ret))[:120])
                rows.add("absent")
            else:
                r4.require(not ok, (fn, "ok-without-delete"), "StrongholdStorage::delete returns Ok without having deleted anything — path: %s" % q.describe()[:200])
        r4.site("StrongholdStorage::delete rows: %s" % sorted(rows))
        r4.require({"deleted-ok", "absent"} <= rows or not tabd.paths, (fn, "rows"), "StrongholdStorage::delete does not show the rows (record exists → deleted) and (record absent → KeyNotFound): %s" % sorted(rows))

    # ------------------------------------------------------------------ R5 lock discipline of the mem stores (type level)
    # the map model above takes two keys to be the same exactly when they are the same value: the stores' key types compare and hash by
    # their whole content (derived, or hand-written over exactly their fields) — a looser equality makes a never-issued id hit a stored key
    import c17 as _c17
    for kt_ in ("identity_storage::key_storage::key_id::KeyId", "identity_storage::key_id_storage::method_digest::MethodDigest"):
        if r4.anchor(F.adt(kt_), kt_):
            _c17.check_identity_traits(F, r4, kt_, traits=("core::cmp::PartialEq", "core::cmp::Eq", "core::hash::Hash"))
    r4.floor(15)
    r5 = R.rule("C15-R5", "T13", "the mem stores keep their maps behind an async RwLock and no method hands out the map or a guard")
    for ty, field in ((KIM, "key_id_store"), (JMS, "jwk_store")):
        fs = F.adt_fields(ty)
        if not r5.anchor(fs, ty):
            continue
        f = next((x for x in fs if x["name"] == field), None)
        r5.site("%s.%s : %s (%s)" % (L.short(ty), field, f["ty"] if f else None, f["vis"] if f else None))
        shared = F.adt_fields("identity_storage::key_storage::memstore::shared::Shared") or []
        wraps = any("RwLock" in x["ty"] for x in shared)
        r5.require(f is not None and ("RwLock" in f["ty"] or ("Shared<" in f["ty"] and wraps)) and f["vis"] != "pub", (ty, "field"), "%s.%s is not a private RwLock-protected map" % (L.short(ty), field))
        for p, fdef in F.fns.items():
            if p.startswith(ty + "::") and fdef["reachable"] and re.search(r"Guard|&mut .*HashMap|RwLock", fdef["sig"].split("->")[-1] if "->" in fdef["sig"] else ""):
                r5.fail((p, "exposes-store"), "%s returns a guard/map of the store" % L.short(p))
    r5.floor(2)
