"""C10 — Accepted DIDs and DID URLs are canonical, decomposable, free of stray parts."""
import re

import hir as H
import mir as M
import rulelib as L
import symrules as SR
import sym
import spec_tables as S
from c08 import format_calls
import charpred as CP

CRATES = ["identity_did"]
DID = "identity_did::did::CoreDID"
DU = "identity_did::did_url::DIDUrl"
REL = "identity_did::did_url::RelativeDIDUrl"
MOD = "identity_did::did_url"
BASE_ACC = re.compile(r"did_url_parser::DID::(method|method_id|scheme|path|query|fragment)$|::(method|method_id|scheme|path|query|fragment)$")

# RFC 3986: unreserved / sub-delims / ":" / "@"  (pchar without pct-encoded), plus "/" inside paths and "?" inside query/fragment
UNRESERVED = set(range(0x30, 0x3A)) | set(range(0x41, 0x5B)) | set(range(0x61, 0x7B)) | {ord(c) for c in "-._~"}
SUB_DELIMS = {ord(c) for c in "!$&'()*+,;="}
PCHAR = UNRESERVED | SUB_DELIMS | {ord(":"), ord("@")}


def char_pred_set(F, fn):
    """Set of code points accepted by `fn(ch: char) -> bool`, by finite-domain folding (charpred); (None, reason) when not foldable."""
    return CP.fn_accepted_set(F, fn)


def run(F, R, tier):
    R.undecided += ["what the external did_url_parser crate accepts or normalises", "verbatim reproduction of the input string (stored and printed by did_url_parser)"]

    # ------------------------------------------------------------------ R1 CoreDID constructor gate
    r1 = R.rule("C10-R1", "T1+T2", "CoreDID(..) is constructed only after check_validity ✓ (method name, method id, scheme, no path/query/fragment)")
    cons = F.constructions(DID)
    gate = "<" + DID + " as core::convert::TryFrom<did_url_parser::DID>>::try_from"
    gates = F.find(r"^<identity_did::did::CoreDID as core::convert::TryFrom<.*>>::try_from$")
    for (p, bi, s) in cons:
        base = p.split("::{closure#")[0]
        r1.site("CoreDID(..) constructed in %s" % L.short(p))
        body = F.mir(base, follow_async=False)
        ok, ncalls, nedges = body.must_pass_success(DID + "::check_validity", [bi]) if body is not None and p == base else (False, 0, 0)
        r1.require(ok, (base, "unvalidated-construction"), "CoreDID is constructed in %s on a path that has not passed check_validity: a plain DID could carry a path, query or fragment" % L.short(base))
    r1.require(len(cons) >= 1, (DID, "constructions"), "no construction site of CoreDID found")
    # parse routes through the gate
    h = F.hir(DID + "::parse")
    if r1.anchor(h, DID + "::parse"):
        env = H.Env(h)
        for n, oc in H.exits(h):
            oo = H.origins(n, env)
            r1.site("CoreDID::parse returns %s" % sorted(map(str, oo)), n.get("sp"))
            r1.require(bool(oo) and all(o[0] == "call" and re.search(r"TryFrom.*try_from$", o[1]) for o in oo), ("CoreDID::parse", "via-gate"), "CoreDID::parse does not return through the validating TryFrom<BaseDIDUrl>: %s" % sorted(map(str, oo)))
    for fn in F.find(r"^<identity_did::did::CoreDID as core::(convert::TryFrom<(&str|alloc::string::String)>|str::traits::FromStr)>::(try_from|from_str)$"):
        hh = F.hir(fn)
        env = H.Env(hh)
        for n, oc in H.exits(hh):
            oo = H.origins(n, env)
            r1.site("%s → %s" % (L.short(fn), sorted(map(str, oo))))
            r1.require(oo == {("call", DID + "::parse")}, (fn, "delegates-parse"), "%s does not delegate to CoreDID::parse" % L.short(fn))
    a = F.ast_item(DID)
    if r1.anchor(a, DID + " (ast)"):
        attrs = " ".join(a["attrs"])
        r1.site("CoreDID serde attrs %s" % [x for x in a["attrs"] if "serde" in x])
        r1.require("try_from" in attrs, (DID, "serde-try_from"), "CoreDID is deserialised without the validating try_from conversion")
    check_validity_guards(F, r1)
    r1.floor(7)

    # ------------------------------------------------------------------ R2 check before write
    r2 = R.rule("C10-R2", "T2", "setters write only after validation succeeded (a rejected call leaves the value unchanged); each setter validates with its own character class and delimiter rule")
    for fn, val, setter in ((DID + "::set_method_name", "valid_method_name", "set_method"), (DID + "::set_method_id", "valid_method_id", "set_method_id")):
        h = F.hir(fn)
        if not r2.anchor(h, fn):
            continue
        env = H.Env(h)
        tree = H.Tree(h)
        ws = [n for n in H.walk(H.root(h)) if n.get("k") == "mcall" and n["name"] == setter]
        if r2.require(len(ws) == 1, (fn, "write"), "expected exactly one write through %s" % setter):
            pre = tree.preceding(ws[0])
            tried = {(H.fn_name(c) or "").rsplit("::", 1)[-1] for c in H.tried_calls(pre)}
            r2.site("%s: %s? precedes the write" % (L.short(fn), val), ws[0]["sp"])
            r2.require(val in tried and not [c for c in tree.path_conditions(ws[0]) if c[0] == "if"], (fn, "validate-first"), "%s writes before (or without) %s having succeeded" % (L.short(fn), val))
            vo = [H.origins(c["args"][0], env) for c in H.calls(h, re.compile(val + "$"))]
            wo = H.origins(ws[0]["args"][0], env)
            r2.require(vo and all(v == {("param", "value")} for v in vo) and wo == {("param", "value")}, (fn, "same-value"), "the value validated is not the value written")
    spec = {
        "set_path": ("path", "is_char_path", None, "InvalidPath"),
        "set_query": ("query", "is_char_query", "?", "InvalidQuery"),
        "set_fragment": ("fragment", "is_char_fragment", "#", "InvalidFragment"),
    }
    for name, (field, pred, delim, err) in spec.items():
        fn = REL + "::" + name
        if not r2.anchor(F.hir(fn), fn):
            continue
        tab = SR.Table(F, fn, opaque=r"is_valid_url_segment$|alloc::fmt::format$", rule=r2)
        VAL = ("payload", SR.param("value"), "Some", 0)
        n_set = 0
        for q in tab.paths:
            ws = SR.writes(q, field)
            if not SR.is_success(q.ret):
                r2.require(not ws, (fn, "assign-after-try"), "%s assigns the field although it returns an error: a rejected call changes the value" % name)
                r2.require(SR.err_name(q.ret) == err, (fn, "error"), "%s does not report %s (got %s)" % (name, err, SR.err_name(q.ret)))
                continue
            if not r2.require(len(ws) == 1, (fn, "write"), "%s: an accepting path does not assign self.%s exactly once" % (name, field)):
                continue
            stored = ws[0].args[1]
            if sym.term(stored) == ("ctor", "None"):
                # clearing: only for an absent or empty value
                r2.require(SR.variant(q, SR.param("value")) == "None" or q.val.get(("nonempty", VAL)) is False, (fn, "clear"), "%s clears the component for a non-empty value" % name)
                continue
            n_set += 1
            # the stored segment was validated with this component's character class …
            seg_ok = None
            for e in q.calls(r"is_valid_url_segment$"):
                if q.succeeded(e) is True and sym.term(e.args[1]) == ("fn", MOD + "::" + pred):
                    seg_ok = e.args[0]
            if not r2.require(seg_ok is not None, (fn, "char-class"), "%s stores a value without is_valid_url_segment(_, %s) having succeeded" % (name, pred)):
                continue
            st = sym.term(seg_ok)
            r2.require(SR.derives(stored, st), (fn, "same-value"), "%s validates %s but stores %s" % (name, sym.fmt(st), sym.fmt(sym.term(stored))[:120]))
            r2.require(q.val.get(("nonempty", st)) is True or q.val.get(("nonempty", VAL)) is True and st == VAL, (fn, "non-empty"), "%s stores an empty segment" % name)
            if delim is None:
                okd = any(a[0] == "truth" and c is True and a[1][:1] == ("call",) and a[1][1].endswith("starts_with") and a[1][2] == (VAL, ("lit", "/")) for (a, c, _, _) in q.decisions)
                r2.require(okd, (fn, "leading-slash"), "set_path does not require a leading '/'")
                r2.require(sym.term(stored) == ("ctor", "Some", VAL), (fn, "stored-form"), "set_path does not store the validated value itself: %r" % (stored,))
            else:
                # validated segment = value without its optional leading delimiter; stored form = delimiter + segment
                stripped = ("payload", ("call", "str::strip_prefix", (VAL, ("lit", delim))), "Some", 0)
                sv = q.variant.get(("call", "str::strip_prefix", (VAL, ("lit", delim))))
                r2.require((sv == "Some" and st == stripped) or (sv == "None" and st == VAL), (fn, "delimiter"), "%s does not normalise the leading '%s' (validated %s)" % (name, delim, sym.fmt(st)))
                tmpl = ("list", ("lit", 1), ("lit", ord(delim)), ("lit", 192), ("lit", 0))
                fm = [x for x in sym.subterms(sym.term(stored)) if isinstance(x, tuple) and x[:1] == ("call",) and x[1].endswith("Arguments::new")]
                r2.require(any(len(x[2]) == 2 and x[2][0] == tmpl and SR.derives(x[2][1], st) for x in fm), (fn, "stored-form"), "%s does not store the value as '%s' + validated segment" % (name, delim))
        r2.site("%s: self.%s = validated(value)?  predicate %s; %d storing path(s), rejected calls leave the field untouched" % (name, field, pred, n_set))
        r2.require(n_set > 0 or not tab.paths, (fn, "write"), "%s: no path stores a value" % name)
    # who writes the three fields
    for field in ("path", "query", "fragment"):
        for (p, bi, kind, d) in F.field_writes(REL, field):
            base = p.split("::{closure#")[0]
            if F.derived_trait_of(base):
                continue
            r2.require(base == REL + "::set_" + field, (base, "writes-" + field), "RelativeDIDUrl.%s is written in %s, outside its validating setter" % (field, L.short(base)))
    fs = F.adt_fields(REL)
    if r2.anchor(fs, REL):
        r2.require(all(f["vis"] != "pub" for f in fs), (REL, "private-fields"), "RelativeDIDUrl has public fields")
    r2.floor(5)

    # ------------------------------------------------------------------ R3/R4 DIDUrl gate and join
    r3 = R.rule("C10-R3", "T1+T2", "DIDUrl{did,url} is built only in new/from_base_did_url/map/try_map; from_base_did_url validates all three segments and strips them before CoreDID::try_from; join requires a leading delimiter")
    allowed = {DU + "::new", DU + "::from_base_did_url", DU + "::map", DU + "::try_map"}
    for (p, bi, s) in F.constructions(DU):
        base = p.split("::{closure#")[0]
        r3.site("DIDUrl{..} constructed in %s" % L.short(p))
        if F.derived_trait_of(base):
            continue
        r3.require(base in allowed, (base, "constructs-DIDUrl"), "DIDUrl is constructed in %s, which is not a reviewed site" % L.short(base))
    fs = F.adt_fields(DU)
    if r3.anchor(fs, DU):
        r3.require(all(f["vis"] != "pub" for f in fs), (DU, "private-fields"), "DIDUrl has public fields")
    fn = DU + "::from_base_did_url"
    L.require_tried_before_success(r3, F, fn, [("set_path", REL + "::set_path"), ("set_query", REL + "::set_query"), ("set_fragment", REL + "::set_fragment"),
                                               ("CoreDID::try_from", re.compile(r"CoreDID as core::convert::TryFrom<.*>>::try_from$|TryFrom::try_from$"))])
    h = F.hir(fn)
    if h:
        env = H.Env(h)
        for name, part in (("set_path", "path"), ("set_query", "query"), ("set_fragment", "fragment")):
            for c in H.calls(h, REL + "::" + name):
                oo = H.origins(H.call_args(c)[1], env, accessors=BASE_ACC)
                r3.require(oo == {("param", "did_url", part)}, (fn, "segment-arg", part), "%s is not given the parsed %s: %s" % (name, part, sorted(map(str, oo))))
        clears = {n["name"]: n for n in H.walk(H.root(h)) if n.get("k") == "mcall" and n["name"] in ("set_path", "set_query", "set_fragment") and not (H.fn_name(n) or "").startswith(REL)}
        r3.site("from_base_did_url clears %s before CoreDID::try_from" % sorted(clears))
        r3.require(set(clears) == {"set_path", "set_query", "set_fragment"}, (fn, "strip-before-did"), "from_base_did_url does not strip path, query and fragment before building the CoreDID")
        for nm, n_ in clears.items():
            arg = H.strip(n_["args"][0])
            okv = (H.literals(arg) == [""]) if nm == "set_path" else (H.variant_name(arg.get("res", {})) == "None")
            r3.require(okv, (fn, "strip-value", nm), "%s is not cleared" % nm)
    fn = DU + "::join"
    h = F.hir(fn)
    if r3.anchor(h, fn):
        env = H.Env(h)
        tree, infos = L.exit_infos(h)
        for e in infos:
            if not L.is_success_exit(e) and not (e.outcome == "expr"):
                continue
            if e.outcome.startswith("Err("):
                continue
            delims = set()
            for c in e.conds:
                if c[0] == "if" and c[2] is False:
                    for cj in H.conjuncts(c[1]):
                        inner, neg = H.negated(cj)
                        inner = H.strip(inner)
                        if neg and inner.get("k") == "mcall" and inner["name"] == "starts_with" and H.origins(inner["recv"], env, extra=re.compile(r"as_ref$")) == {("param", "segment")}:
                            delims |= {x for x in H.literals(inner) if isinstance(x, str)}
            r3.site("join: success requires segment to start with one of %s" % sorted(delims), e.node.get("sp"))
            r3.require(delims == {"/", "?", "#"}, (fn, "leading-delimiter"), "join can succeed for a segment that does not start with '/', '?' or '#' (delimiters tested: %s)" % sorted(delims))
            oo = H.origins(e.node, env)
            r3.require(oo == {("call", DU + "::from_base_did_url")}, (fn, "via-gate"), "join does not return through from_base_did_url: %s" % sorted(map(str, oo)))
    h = F.hir(DU + "::parse")
    if r3.anchor(h, DU + "::parse"):
        env = H.Env(h)
        for n, oc in H.exits(h):
            r3.require(H.origins(n, env) == {("call", DU + "::from_base_did_url")}, (DU + "::parse", "via-gate"), "DIDUrl::parse does not return through from_base_did_url")
    r3.floor(10)

    # ------------------------------------------------------------------ R5 Eq/Ord/Hash agreement
    r5 = R.rule("C10-R5", "T5", "RelativeDIDUrl eq/cmp/hash(Display) read the same three fields through the same projection, same field on both sides, in the order path, query, fragment; DIDUrl composes did then url")
    fields = [f["name"] for f in (F.adt_fields(REL) or [])]
    eqf = (F.find(r"^<identity_did::did_url::RelativeDIDUrl as core::cmp::PartialEq(<.*>)?>::eq$") or ["<RelativeDIDUrl as PartialEq>::eq"])[0]
    cmpf = "<" + REL + " as core::cmp::Ord>::cmp"

    def field_pairs(fn, kind):
        """[(self field, other field)] for each comparison (==) or `.cmp(..)` call in fn"""
        h = F.hir(fn)
        if not r5.anchor(h, fn):
            return []
        env = H.Env(h)
        out = []
        for n_ in H.walk(H.root(h)):
            pair = None
            if kind == "eq" and n_.get("k") == "binary" and n_.get("op") == "Eq":
                pair = (n_["l"], n_["r"])
            if kind == "cmp" and n_.get("k") == "mcall" and n_["name"] == "cmp":
                pair = (n_["recv"], n_["args"][0])
            if pair:
                lo = H.origins(pair[0], env)
                ro = H.origins(pair[1], env)
                if len(lo) == 1 and len(ro) == 1:
                    a, b = next(iter(lo)), next(iter(ro))
                    if a[0] == "param" and b[0] == "param" and len(a) > 2 and len(b) > 2:
                        sides = {a[1]: a[2], b[1]: b[2]}
                        out.append((sides.get("self"), sides.get("other"), n_.get("sp"), H.called_fns(pair[0]) == H.called_fns(pair[1])))
        return out
    for fn, kind in ((eqf, "eq"), (cmpf, "cmp")):
        pairs = field_pairs(fn, kind)
        seq = [p[0] for p in pairs]
        for sf, of, sp, same_proj in pairs:
            r5.site("%s: self.%s vs other.%s" % (L.short(fn), sf, of), sp)
            r5.require(sf == of and sf is not None, (fn, "field-pair", str(sf), str(of)), "%s compares self.%s with other.%s" % (L.short(fn), sf, of), sp)
            r5.require(same_proj, (fn, "projection", str(sf)), "%s projects the two sides of `%s` differently" % (L.short(fn), sf), sp)
        r5.require(seq == ["path", "query", "fragment"] and set(seq) == set(fields), (fn, "field-order"), "%s compares fields %s; expected path, query, fragment (all fields of RelativeDIDUrl: %s)" % (L.short(fn), seq, fields))
    # cmp: lexicographic structure — later fields are compared only when earlier ones are Equal
    h = F.hir(cmpf)
    if h:
        env = H.Env(h)
        tree = H.Tree(h)
        for n_ in H.walk(H.root(h)):
            if n_.get("k") == "mcall" and n_["name"] == "cmp":
                lo = H.origins(n_["recv"], env)
                fld = next(iter(lo))[2] if lo and len(next(iter(lo))) > 2 else None
                guards = []
                for c in tree.path_conditions(n_):
                    if c[0] == "if" and c[2] is True:
                        cc = H.strip(c[1])
                        if cc.get("k") == "binary" and cc["op"] == "Eq":
                            guards.append(H.local_name(cc["l"]) or H.local_name(cc["r"]))
                want = {"path": [], "query": ["path_cmp"], "fragment": ["query_cmp", "path_cmp"]}.get(fld)
                r5.require(want is not None and sorted(guards) == sorted(want), (cmpf, "lexicographic", str(fld)), "cmp: the %s comparison is evaluated under %s, expected under equality of %s" % (fld, guards, want))
    # hash = to_string; Display = "{}{}{}" over path, query, fragment
    for ty, fields_want, tplw in ((REL, [("param", "self", "path"), ("param", "self", "query"), ("param", "self", "fragment")], "{}{}{}"),
                                 (DU, [("param", "self", "did", "as_str"), ("param", "self", "url")], "{}{}")):
        hf = "<" + ty + " as core::hash::Hash>::hash"
        h = F.hir(hf)
        if r5.anchor(h, hf):
            ok = any(f.endswith("ToString::to_string") for f in H.called_fns(H.root(h)))
            r5.site("%s hashes to_string(): %s" % (L.short(hf), ok))
            r5.require(ok, (hf, "to_string"), "%s does not hash the Display form" % L.short(hf))
        df = "<" + ty + " as core::fmt::Display>::fmt"
        h = F.hir(df)
        if r5.anchor(h, df):
            env = H.Env(h)
            fc = [(t, o) for t, o, _ in format_calls(h, env, accessors=re.compile(r"DID::as_str$|CoreDID::as_str$"))]
            # args through a slightly different lowering: fall back to the arguments of write_fmt
            good = False
            for tpl, oo in fc:
                shape = "".join("{}" if t[0] == "arg" else t[1] for t in tpl)
                got = [sorted(o) for o in oo]
                r5.site("%s Display template %r over %s" % (L.short(ty), shape, got))
                if shape == tplw and [set(g) for g in got] == [{w} for w in [tuple(x) for x in fields_want]]:
                    good = True
            r5.require(good, (df, "template"), "%s Display is not %r over %s" % (L.short(ty), tplw, fields_want))
    deq = (F.find(r"^<identity_did::did_url::DIDUrl as core::cmp::PartialEq(<.*>)?>::eq$") or ["<DIDUrl as PartialEq>::eq"])[0]
    h = F.hir(deq)
    if r5.anchor(h, deq):
        env = H.Env(h)
        tails = [n for n, _ in H.exits(h)]
        cj = H.conjuncts(tails[0]) if tails else []
        parts = []
        for c in cj:
            c = H.strip(c)
            if c.get("k") == "mcall" and c["name"] == "eq":
                parts.append((sorted(H.origins(c["recv"], env, accessors=re.compile(r"DIDUrl::(did|url)$"))), sorted(H.origins(c["args"][0], env, accessors=re.compile(r"DIDUrl::(did|url)$")))))
            elif c.get("k") == "binary" and c["op"] == "Eq":
                parts.append((sorted(H.origins(c["l"], env, accessors=re.compile(r"DIDUrl::(did|url)$"))), sorted(H.origins(c["r"], env, accessors=re.compile(r"DIDUrl::(did|url)$")))))
        r5.site("DIDUrl::eq conjuncts %s" % parts)
        want = [([("param", "self", "did")], [("param", "other", "did")]), ([("param", "self", "url")], [("param", "other", "url")])]
        r5.require(parts == want, (deq, "did-and-url"), "DIDUrl::eq is not `did == did && url == url`: %s" % parts)
    dcmp = "<" + DU + " as core::cmp::Ord>::cmp"
    h = F.hir(dcmp)
    if r5.anchor(h, dcmp):
        env = H.Env(h)
        acc = re.compile(r"DIDUrl::(did|url)$")
        m = H.find_first(h, lambda n: n.get("k") == "match" and n.get("src") == "normal")
        ok = False
        if m:
            sc = H.strip(m["scrut"])
            first = sc.get("k") == "mcall" and sc["name"] == "cmp" and H.origins(sc["recv"], env, accessors=acc) == {("param", "self", "did")} and H.origins(sc["args"][0], env, accessors=acc) == {("param", "other", "did")}
            arms = {H.pat_str(a_["pat"]): a_ for a_ in m["arms"]}
            eq_arm = arms.get("Equal")
            second = False
            if eq_arm:
                b = H.strip(eq_arm["body"])
                second = b.get("k") == "mcall" and b["name"] == "cmp" and H.origins(b["recv"], env, accessors=acc) == {("param", "self", "url")} and H.origins(b["args"][0], env, accessors=acc) == {("param", "other", "url")}
            rest = [k for k in arms if k != "Equal"]
            passthrough = len(rest) == 1 and H.local_name(arms[rest[0]]["body"]) is not None
            ok = first and second and passthrough
        r5.site("DIDUrl::cmp = did.cmp(did) then url.cmp(url): %s" % ok)
        r5.require(ok, (dcmp, "did-then-url"), "DIDUrl::cmp is not `match did.cmp(did) { Equal => url.cmp(url), ord => ord }`")
    r5.floor(12)

    # ------------------------------------------------------------------ R6 character classes and percent-encoding
    r6 = R.rule("C10-R6", "T7", "character classes equal the W3C DID / RFC 3986 sets; a percent escape is '%' followed by exactly two hex digits in every validator")
    want_sets = {
        "identity_did::did::is_char_method_name": (S.DID_METHOD_CHAR, "method-char = %x61-7A / DIGIT"),
        "identity_did::did::is_char_method_id": (S.DID_IDCHAR | {ord(":")}, "idchar / ':'"),
        MOD + "::is_char_path": (PCHAR | {ord("/")}, "pchar / '/'"),
        MOD + "::is_char_query": (PCHAR | {ord("/"), ord("?")}, "pchar / '/' / '?'"),
        MOD + "::is_char_fragment": (PCHAR | {ord("/"), ord("?")}, "pchar / '/' / '?'"),
    }
    for fn, (w, desc) in want_sets.items():
        got, why = char_pred_set(F, fn)
        if not r6.require(got is not None, (fn, "not-extractable"), "%s cannot be folded over the code-point domain (%s); cannot compare it with the specification" % (L.short(fn), why)):
            continue
        r6.site("%s accepts %d code points (%s)" % (L.short(fn), len(got), desc))
        extra = sorted(got - w)
        missing = sorted(w - got)
        r6.require(not extra, (fn, "extra"), "%s accepts characters outside %s: %s" % (L.short(fn), desc, [chr(c) for c in extra][:12]))
        r6.require(not missing, (fn, "missing"), "%s rejects characters of %s: %s" % (L.short(fn), desc, [chr(c) for c in missing][:12]))
        r6.require(ord("%") not in got, (fn, "percent"), "%s accepts a bare '%%'" % L.short(fn))
    # percent escapes
    fn = MOD + "::is_valid_percent_encoded_char"
    h = F.hir(fn)
    if r6.anchor(h, fn):
        env = H.Env(h)
        tails = [n for n, _ in H.exits(h) if H.literals(n) != [False]]
        okl = okh = False
        for t in tails:
            for cj in H.conjuncts(t):
                cj = H.strip(cj)
                if cj.get("k") == "binary" and cj["op"] in ("Ge", "Gt", "Eq") and any(f.endswith("::len") for f in H.called_fns(cj)):
                    lits = [x for x in H.literals(cj) if isinstance(x, int)]
                    okl = (cj["op"] == "Ge" and lits == [3]) or (cj["op"] == "Gt" and lits == [2])
                if cj.get("k") == "mcall" and cj["name"] == "all":
                    takes = [x for x in H.walk(cj) if x.get("k") == "mcall" and x["name"] == "take"]
                    okh = bool(takes) and H.literals(takes[0]["args"][0]) == [2] and any(f.endswith("is_ascii_hexdigit") for f in H.called_fns(cj))
        first = any(n.get("k") == "let" and n.get("els") is not None and "%" in [x for x in (H.pat_str(n["pat"]),) ] or (n.get("k") == "let" and n.get("els") is not None) for n in H.walk(H.root(h)))
        r6.site("is_valid_percent_encoded_char: leading '%%' required: %s, at least 3 chars: %s, two hex digits: %s" % (first, okl, okh))
        r6.require(okh, (fn, "hex-digits"), "the two characters after '%' are not required to be hex digits")
        r6.require(okl, (fn, "length"), "a '%' followed by fewer than two characters is accepted (`take(2).all(..)` is vacuously true on a short tail): truncated escape")
    fn = MOD + "::is_valid_url_segment"
    h = F.hir(fn)
    if r6.anchor(h, fn):
        fns = {f.rsplit("::", 1)[-1] for f in H.called_fns(H.root(h))}
        nexts = [n for n in H.walk(H.root(h)) if n.get("k") == "mcall" and n["name"] == "next"]
        r6.site("is_valid_url_segment: uses is_valid_percent_encoded_char: %s; skips %d chars after an escape" % ("is_valid_percent_encoded_char" in fns, max(0, len(nexts) - 1)))
        r6.require("is_valid_percent_encoded_char" in fns, (fn, "percent"), "is_valid_url_segment does not validate percent escapes")
    # method-id validator has its own escape handling
    fn = DID + "::valid_method_id"
    h = F.hir(fn)
    if r6.anchor(h, fn):
        fns = {f.rsplit("::", 1)[-1] for f in L.called_fns_deep(F, fn)}
        uses_radix = "from_str_radix" in fns
        uses_shared = "is_valid_percent_encoded_char" in fns or "is_ascii_hexdigit" in fns
        r6.site("valid_method_id escape check: from_str_radix=%s hexdigit/shared=%s" % (uses_radix, uses_shared))
        lens = [x for x in L.literals_deep(F, fn) if x == 2]
        r6.require(len(lens) >= 2 or "is_valid_percent_encoded_char" in fns, (fn, "escape-length"), "valid_method_id does not require exactly two characters after '%'")
        r6.require(uses_shared and not uses_radix, (fn, "escape-check"),
                   "valid_method_id validates a percent escape with u8::from_str_radix over `take(2)`: that accepts a truncated escape (\"%4\") and a sign (\"%+4\"), which are not `%` HEXDIG HEXDIG")
    r6.floor(8)



def check_validity_guards(F, r1):
    """CoreDID::check_validity: name ✓, id ✓, scheme, and *presence* (not non-emptiness) of path/query/fragment rejected"""
    # check_validity's guards
    fn = DID + "::check_validity"
    h = F.hir(fn)
    if r1.anchor(h, fn):
        env = H.Env(h)
        tree, infos = L.exit_infos(h)
        for e in infos:
            if not L.is_success_exit(e):
                continue
            tried = {(H.fn_name(c) or "").rsplit("::", 1)[-1] for c in e.tried}
            r1.require({"valid_method_name", "valid_method_id"} <= tried, (fn, "name-id"), "check_validity can succeed without valid_method_name and valid_method_id: %s" % sorted(tried))
            seen = {}
            for c in e.conds:
                if c[0] != "if" or c[2] is not False:
                    continue
                for d in H.disjuncts(c[1]):
                    inner, neg = H.negated(d)
                    inner = H.strip(inner)
                    fns = {f.rsplit("::", 1)[-1] for f in H.called_fns(inner)}
                    if inner.get("k") == "binary" and inner.get("op") == "Ne" and "scheme" in fns:
                        seen["scheme"] = True
                    if neg and "path" in fns and "is_empty" in fns:
                        seen["path"] = True
                    if not neg and "fragment" in fns and "is_some" in fns:
                        seen["fragment"] = True
                    if not neg and "query" in fns and "is_some" in fns:
                        seen["query"] = True
            r1.site("check_validity Ok guarded by: %s" % sorted(seen), e.node.get("sp"))
            for k in ("scheme", "path", "fragment", "query"):
                r1.require(seen.get(k), (fn, "guard", k), "check_validity can succeed without rejecting a %s" % ("wrong scheme" if k == "scheme" else "non-empty " + k))
        for c in H.calls(h, re.compile(r"CoreDID::valid_method_(name|id)$")):
            oo = H.origins(c["args"][0], env, accessors=BASE_ACC)
            want = "method" if c["fn"].endswith("name") else "method_id"
            r1.require(oo == {("param", "did", want)}, (fn, "arg", want), "%s is not applied to did.%s(): %s" % (L.short(c["fn"]), want, sorted(map(str, oo))))
