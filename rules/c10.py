"""C10 — Accepted DIDs and DID URLs are canonical, decomposable, free of stray parts."""
import re

import hir as H
import mir as M
import rulelib as L
import symrules as SR
import sym
import spec_tables as S
from c08 import format_calls
import charpred as CP
import sibling as SB

CRATES = ["identity_did"]
DID = "identity_did::did::CoreDID"
DU = "identity_did::did_url::DIDUrl"
REL = "identity_did::did_url::RelativeDIDUrl"
MOD = "identity_did::did_url"
BASE_ACC = re.compile(r"did_url_parser::DID::(method|method_id|scheme|path|query|fragment)$|::(method|method_id|scheme|path|query|fragment)$")

# RFC 3986: unreserved / sub-delims / ":" / "@"  (pchar without pct-encoded), plus "/" inside paths and "?" inside query/fragment
UNRESERVED = set(range(0x30, 0x3A)) | set(range(0x41, 0x5B)) | set(range(0x61, 0x7B)) | {ord(c) for c in "-._~"}
SUB_DELIMS = {ord(c) for c in "!$&'()*+,;="}
PCHAR = UNRESERVED | SUB_DELIMS | {ord(":"), ord("@")}


def char_pred_set(F, fn):
    """Set of code points accepted by `fn(ch: char) -> bool`, by finite-domain folding (charpred); (None, reason) when not foldable."""
    return CP.fn_accepted_set(F, fn)


def run(F, R, tier):
    R.undecided += ["what the external did_url_parser crate accepts or normalises", "verbatim reproduction of the input string (stored and printed by did_url_parser)"]

    # ------------------------------------------------------------------ R1 CoreDID constructor gate
    r1 = R.rule("C10-R1", "T1+T2", "CoreDID(..) is constructed only after check_validity ✓ (method name, method id, scheme, no path/query/fragment)")
    cons = F.constructions(DID)
    gate = "<" + DID + " as core::convert::TryFrom<did_url_parser::DID>>::try_from"
    gates = F.find(r"^<identity_did::did::CoreDID as core::convert::TryFrom<.*>>::try_from$")
    for (p, bi, s) in cons:
        base = p.split("::{closure#")[0]
        r1.site("CoreDID(..) constructed in %s" % L.short(p))
        body = F.mir(base, follow_async=False)
        ok, ncalls, nedges = body.must_pass_success(DID + "::check_validity", [bi]) if body is not None and p == base else (False, 0, 0)
        r1.require(ok, (base, "unvalidated-construction"), "CoreDID is constructed in %s on a path that has not passed check_validity: a plain DID could carry a path, query or fragment" % L.short(base))
    r1.require(len(cons) >= 1, (DID, "constructions"), "no construction site of CoreDID found")
    # parse routes through the gate
    VERB = re.compile(r"(as_ref|as_str|borrow|deref|to_string|to_owned|into|from|clone|as_bytes)$")
    fn = DID + "::parse"
    if r1.anchor(F.hir(fn), fn):
        tab = SR.Table(F, fn, opaque=r"did_url_parser::did::DID::parse$|TryFrom<.*>>::try_from$|TryFrom::try_from$", rule=r1)
        okp = bool(tab.ok())
        for q in tab.ok():
            ps_ = q.calls(r"did_url_parser::did::DID::parse$")
            tf = [e for e in q.calls(r"try_from$") if ps_ and SR.pure(e.args[0], ("payload", ps_[0].result.t, "Ok", 0))]
            if not r1.require(len(ps_) == 1 and len(tf) == 1 and SR.pure(q.ret, tf[0].result.t), ("CoreDID::parse", "via-gate"), "CoreDID::parse does not return through the validating TryFrom<BaseDIDUrl> of the parsed input"):
                okp = False
                continue
            if not r1.require(SR.pure(ps_[0].args[0], SR.param("input"), conv=VERB), ("CoreDID::parse", "verbatim"), "CoreDID::parse does not hand its input to the parser verbatim: %s" % sym.fmt(sym.term(ps_[0].args[0]))):
                okp = False
        r1.site("CoreDID::parse = CoreDID::try_from(BaseDIDUrl::parse(input)?) with the input verbatim: %s" % okp)
    for fn in F.find(r"^<identity_did::did::CoreDID as core::(convert::TryFrom<(&str|alloc::string::String)>|str::traits::FromStr)>::(try_from|from_str)$"):
        tab = SR.Table(F, fn, opaque=r"CoreDID::parse$", rule=r1)
        okd = bool(tab.ok())
        for q in tab.ok():
            ps_ = q.calls(r"CoreDID::parse$")
            pname = sym.param_name(F, fn, 0)
            if not r1.require(len(ps_) == 1 and SR.pure(q.ret, ps_[0].result.t) and SR.pure(ps_[0].args[0], SR.param(pname), conv=VERB), (fn, "delegates-parse"), "%s does not delegate to CoreDID::parse with its input verbatim" % L.short(fn)):
                okd = False
        r1.site("%s → CoreDID::parse(input): %s" % (L.short(fn), okd))
    a = F.ast_item(DID)
    if r1.anchor(a, DID + " (ast)"):
        attrs = " ".join(a["attrs"])
        r1.site("CoreDID serde attrs %s" % [x for x in a["attrs"] if "serde" in x])
        r1.require("try_from" in attrs, (DID, "serde-try_from"), "CoreDID is deserialised without the validating try_from conversion")
    check_validity_guards(F, r1)
    r1.floor(7)

    # ------------------------------------------------------------------ R2 check before write
    r2 = R.rule("C10-R2", "T2", "setters write only after validation succeeded (a rejected call leaves the value unchanged); each setter validates with its own character class and delimiter rule")
    for fn, val, setter in ((DID + "::set_method_name", "valid_method_name", "set_method"), (DID + "::set_method_id", "valid_method_id", "set_method_id")):
        h = F.hir(fn)
        if not r2.anchor(h, fn):
            continue
        env = H.Env(h)
        tree = H.Tree(h)
        ws = [n for n in H.walk(H.root(h)) if n.get("k") == "mcall" and n["name"] == setter]
        if r2.require(len(ws) == 1, (fn, "write"), "expected exactly one write through %s" % setter):
            pre = tree.preceding(ws[0])
            tried = {(H.fn_name(c) or "").rsplit("::", 1)[-1] for c in H.tried_calls(pre)}
            r2.site("%s: %s? precedes the write" % (L.short(fn), val), ws[0]["sp"])
            r2.require(val in tried and not [c for c in tree.path_conditions(ws[0]) if c[0] == "if"], (fn, "validate-first"), "%s writes before (or without) %s having succeeded" % (L.short(fn), val))
            vo = [H.origins(c["args"][0], env) for c in H.calls(h, re.compile(val + "$"))]
            wo = H.origins(ws[0]["args"][0], env)
            r2.require(vo and all(v == {("param", "value")} for v in vo) and wo == {("param", "value")}, (fn, "same-value"), "the value validated is not the value written")
    spec = {
        "set_path": ("path", "is_char_path", None, "InvalidPath"),
        "set_query": ("query", "is_char_query", "?", "InvalidQuery"),
        "set_fragment": ("fragment", "is_char_fragment", "#", "InvalidFragment"),
    }
    for name, (field, pred, delim, err) in spec.items():
        fn = REL + "::" + name
        if not r2.anchor(F.hir(fn), fn):
            continue
        tab = SR.Table(F, fn, opaque=r"is_valid_url_segment$", rule=r2)
        VAL = ("payload", SR.param("value"), "Some", 0)
        n_set = 0
        for q in tab.paths:
            ws = SR.writes(q, field)
            if not SR.is_success(q.ret):
                r2.require(not ws, (fn, "assign-after-try"), "%s assigns the field although it returns an error: a rejected call changes the value" % name)
                r2.require(SR.err_name(q.ret) == err, (fn, "error"), "%s does not report %s (got %s)" % (name, err, SR.err_name(q.ret)))
                continue
            if not r2.require(len(ws) == 1, (fn, "write"), "%s: an accepting path does not assign self.%s exactly once" % (name, field)):
                continue
            stored = ws[0].args[1]
            if sym.term(stored) == ("ctor", "None"):
                # clearing: only for an absent or empty value
                r2.require(SR.variant(q, SR.param("value")) == "None" or _emptiness(q, VAL) is True, (fn, "clear"), "%s clears the component for a non-empty value" % name)
                continue
            n_set += 1
            # the stored segment was validated with this component's character class …
            seg_ok = None
            for e in q.calls(r"is_valid_url_segment$"):
                if q.succeeded(e) is True and sym.term(e.args[1]) == ("fn", MOD + "::" + pred):
                    seg_ok = e.args[0]
            if not r2.require(seg_ok is not None, (fn, "char-class"), "%s stores a value without is_valid_url_segment(_, %s) having succeeded" % (name, pred)):
                continue
            st = sym.term(seg_ok)
            r2.require(SR.derives(stored, st), (fn, "same-value"), "%s validates %s but stores %s" % (name, sym.fmt(st), sym.fmt(sym.term(stored))[:120]))
            r2.require(_emptiness(q, st) is False or _emptiness(q, VAL) is False and st == VAL, (fn, "non-empty"), "%s stores an empty segment" % name)
            if delim is None:
                okd = any(a[0] == "truth" and c is True and a[1][:1] == ("call",) and a[1][1].endswith("starts_with") and a[1][2] == (VAL, ("lit", "/")) for (a, c, _, _) in q.decisions)
                r2.require(okd, (fn, "leading-slash"), "set_path does not require a leading '/'")
                r2.require(sym.term(stored) == ("ctor", "Some", VAL), (fn, "stored-form"), "set_path does not store the validated value itself: %r" % (stored,))
            else:
                # validated segment = value without its optional leading delimiter; stored form = delimiter + segment
                stripped = ("payload", ("call", "str::strip_prefix", (VAL, ("lit", delim))), "Some", 0)
                sv = q.variant.get(("call", "str::strip_prefix", (VAL, ("lit", delim))))
                r2.require((sv == "Some" and st == stripped) or (sv == "None" and st == VAL), (fn, "delimiter"), "%s does not normalise the leading '%s' (validated %s)" % (name, delim, sym.fmt(st)))
                # the stored text is exactly delimiter ++ validated segment (format!, push_str or join all give the same term)
                cc = [x for x in sym.subterms(sym.term(stored)) if isinstance(x, tuple) and x[:1] == ("concat",)]
                r2.require(any(len(x[1]) == 2 and x[1][0] == ("lit", delim) and x[1][1][0] == "arg" and SR.pure(x[1][1][1], st) for x in cc), (fn, "stored-form"), "%s does not store the value as '%s' + validated segment: %s" % (name, delim, sym.fmt(sym.term(stored))[:100]))
        r2.site("%s: self.%s = validated(value)?  predicate %s; %d storing path(s), rejected calls leave the field untouched" % (name, field, pred, n_set))
        r2.require(n_set > 0 or not tab.paths, (fn, "write"), "%s: no path stores a value" % name)
    # who writes the three fields
    for field in ("path", "query", "fragment"):
        for (p, bi, kind, d) in F.field_writes(REL, field):
            base = p.split("::{closure#")[0]
            if F.derived_trait_of(base):
                continue
            r2.require(base == REL + "::set_" + field, (base, "writes-" + field), "RelativeDIDUrl.%s is written in %s, outside its validating setter" % (field, L.short(base)))
    fs = F.adt_fields(REL)
    if r2.anchor(fs, REL):
        r2.require(all(f["vis"] != "pub" for f in fs), (REL, "private-fields"), "RelativeDIDUrl has public fields")
    r2.floor(5)

    # ------------------------------------------------------------------ R3/R4 DIDUrl gate and join
    # the accessors give back what the setters stored, minus exactly the one delimiter the stored form carries: path() = the stored path,
    # query() / fragment() = stored form with its first character ('?' / '#') removed — nothing more (a query may itself begin with '?')
    for acc, delim in (("path", None), ("query", "?"), ("fragment", "#")):
        afn = REL + "::" + acc
        if not r2.anchor(F.hir(afn), afn):
            continue
        taba = SR.Table(F, afn, rule=r2)
        FLD = SR.fld(acc)
        oka = bool(taba.paths)
        for q in taba.paths:
            rt = sym.term(q.ret)
            if delim is None:
                good = SR.pure(rt, FLD, conv=re.compile(r"(as_deref|as_ref|as_str|deref|borrow)$"))
            elif SR.variant(q, FLD) == "None":
                good = rt == ("ctor", "None")
            else:
                pay = ("payload", FLD, "Some", 0)
                one = ("call", "str::strip_prefix", (pay, ("lit", delim)))
                good = SR.variant(q, FLD) == "Some" and (rt == one or rt == ("ctor", "Some", ("payload", one, "Some", 0))
                                                         or rt == ("ctor", "Some", ("index", pay, ("struct", "core::ops::range::RangeFrom", ("start", ("lit", 1))))))
            if not r2.require(good, (afn, "accessor"), "RelativeDIDUrl::%s does not return the stored %s%s: %s" % (acc, acc, "" if delim is None else " without exactly its leading '%s'" % delim, sym.fmt(rt)[:120])):
                oka = False
        r2.site("RelativeDIDUrl::%s returns the stored component%s: %s" % (acc, "" if delim is None else " minus one leading '%s'" % delim, oka))
    r2.floor(8)

    r3 = R.rule("C10-R3", "T1+T2", "DIDUrl{did,url} is built only in new/from_base_did_url/map/try_map; from_base_did_url validates all three segments and strips them before CoreDID::try_from; join requires a leading delimiter")
    allowed = {DU + "::new", DU + "::from_base_did_url", DU + "::map", DU + "::try_map"}
    for (p, bi, s) in F.constructions(DU):
        base = p.split("::{closure#")[0]
        r3.note("DIDUrl{..} constructed in %s" % L.short(p))
        if F.derived_trait_of(base) or base in allowed or L.private_helper_of(F, base, allowed):
            continue
        r3.fail((base, "constructs-DIDUrl"), "DIDUrl is constructed in %s, which is not a reviewed site" % L.short(base))
    fs = F.adt_fields(DU)
    if r3.anchor(fs, DU):
        r3.require(all(f["vis"] != "pub" for f in fs), (DU, "private-fields"), "DIDUrl has public fields")
    # from_base_did_url, by abstract evaluation (the RelativeDIDUrl setters, the parser's accessors/setters and CoreDID::try_from are
    # recorded calls): on every accepting path the three segments *as parsed* went through their validating setters ✓, the parser value
    # was stripped of path/query/fragment before CoreDID::try_from(it) ✓, and the result is {did: that CoreDID, url: the validated url}
    fn = DU + "::from_base_did_url"
    if r3.anchor(F.hir(fn), fn):
        tab = SR.Table(F, fn, opaque=r"RelativeDIDUrl::set_\w+$|did_url_parser::did::DID::\w+$|try_from$", rule=r3)
        DUP = SR.param("did_url")
        okf = bool(tab.ok())
        for q in tab.ok():
            evs = [e for e in q.events if e.kind == "call"]
            pos = {id(e): k for k, e in enumerate(evs)}
            rel = {}
            for part in ("path", "query", "fragment"):
                cs = [e for e in evs if re.search(r"RelativeDIDUrl::set_%s$" % part, e.fn or "")]
                if not r3.require(len(cs) == 1 and q.succeeded(cs[0]) is True, (fn, "missing-before-success", "set_" + part), "from_base_did_url can succeed without RelativeDIDUrl::set_%s having validated the %s" % (part, part)):
                    okf = False
                    continue
                a_ = sym.term(cs[0].args[1])
                acc = ("call", "did_url_parser::did::DID::" + part, (DUP,))
                okarg = SR.pure(a_, acc) or (isinstance(a_, tuple) and a_[:2] == ("ctor", "Some") and SR.pure(a_[2], acc))
                delim = {"query": "?", "fragment": "#"}.get(part)
                if delim is not None:
                    # The parser's query()/fragment() exclude the delimiter, and the setters (C10-R2) strip ONE leading delimiter from the value
                    # they are given and treat an empty value as "clear".  The parsed component is therefore stored verbatim for every input
                    # — a query that itself begins with '?' (`did:a:b??c`), an empty one (`did:a:b?`) — only when it is handed over *with* its
                    # delimiter: Some(delim ++ component) when present (an empty component then fails the setter's non-empty test), None when absent.
                    var = SR.variant(q, acc)
                    pay = ("payload", acc, "Some", 0)
                    with_delim = (isinstance(a_, tuple) and a_[:2] == ("ctor", "Some") and isinstance(a_[2], tuple) and a_[2][:1] == ("concat",) and len(a_[2][1]) == 2
                                  and a_[2][1][0] == ("lit", delim) and a_[2][1][1][:1] == ("arg",) and SR.pure(a_[2][1][1][1], pay))
                    absent = var == "None" and (a_ == ("ctor", "None") or okarg)
                    if not (with_delim and var == "Some") and not absent:
                        if okarg:
                            r3.fail((fn, "verbatim", part), "from_base_did_url hands the parsed %s to set_%s without its delimiter: the setter drops an empty %s%s, so %s accepted but not reproduced by the string form" % (
                                part, part, part, " and strips a leading '?' that is part of the query" if part == "query" else "",
                                "`did:a:b?` (printed `did:a:b`) and `did:a:b??x` (printed `did:a:b?x`) are" if part == "query" else "`did:a:b#` (printed `did:a:b`) is"))
                        else:
                            r3.fail((fn, "segment-arg", part), "set_%s is not given the parsed %s: %s" % (part, part, sym.fmt(a_)))
                else:
                    r3.require(okarg, (fn, "segment-arg", part), "set_%s is not given the parsed %s: %s" % (part, part, sym.fmt(a_)))
                rel[part] = cs[0]
            tf = [e for e in evs if re.search(r"try_from$", e.fn or "") and e.args and SR.pure(e.args[0], DUP)]
            if not r3.require(len(tf) == 1 and q.succeeded(tf[0]) is True, (fn, "missing-before-success", "CoreDID::try_from"), "from_base_did_url can succeed without CoreDID::try_from(stripped DID URL) ✓"):
                okf = False
                continue
            cleared = {}
            for e in evs:
                m = re.search(r"did_url_parser::did::DID::set_(path|query|fragment)$", e.fn or "")
                if m and pos[id(e)] < pos[id(tf[0])] and SR.pure(e.args[0], DUP):
                    v = e.args[1]
                    cleared[m.group(1)] = (v == "") if m.group(1) == "path" else (isinstance(v, sym.V) and v.name == "None")
            r3.require(set(cleared) == {"path", "query", "fragment"}, (fn, "strip-before-did"), "from_base_did_url does not strip path, query and fragment before building the CoreDID (stripped: %s)" % sorted(cleared))
            for part, okv in cleared.items():
                r3.require(okv, (fn, "strip-value", "set_" + part), "set_%s is not cleared" % part)
            # the segments are read before they are stripped
            for part, e in rel.items():
                strip = [x for x in evs if re.search(r"did_url_parser::did::DID::set_%s$" % part, x.fn or "")]
                rd = [x for x in evs if (x.fn or "") == "did_url_parser::did::DID::" + part]
                r3.require(bool(rd) and bool(strip) and pos[id(rd[0])] < pos[id(strip[0])], (fn, "read-before-strip", part), "the %s is read after it was stripped" % part)
            out = q.ret.fields[0] if isinstance(q.ret, sym.V) and q.ret.fields else None
            okr = isinstance(out, sym.St) and SR.pure(out.f.get("did"), ("payload", tf[0].result.t, "Ok", 0)) and all(sym.term(out.f.get("url")) == sym.term(e.args[0]) for e in rel.values())
            r3.require(okr, (fn, "returns"), "from_base_did_url does not return {did: the validated CoreDID, url: the validated RelativeDIDUrl}")
        r3.site("from_base_did_url: segments validated as parsed, stripped before CoreDID::try_from, result built from both: %s" % okf)
    # join, folded on representative segments: only a segment starting with '/', '?' or '#' reaches the parser; it is joined onto
    # the re-parsed self and the result goes through from_base_did_url
    fn = DU + "::join"
    if r3.anchor(F.hir(fn), fn):
        ev = sym.Evaluator(F, opaque=r"did_url_parser::did::DID::(parse|join)$|to_string$|DIDUrl::from_base_did_url$", inline_depth=4)
        okj = True
        nseg = 0
        for seg, lead in (("", False), ("a", False), (":x", False), ("%2F", False), (" /a", False), ("did:a:b", False), ("a/b?c#d", False), ("\\", False), ("/p", True), ("?q", True), ("#f", True), ("/", True), ("#", True), ("?", True)):
            try:
                paths = ev.explore(fn, args=[sym.Sym(("param", "self")), seg])
            except (sym.Abort, sym.TooManyPaths) as e:
                r3.fail((fn, "not-evaluable"), "DIDUrl::join could not be evaluated: %s" % e)
                okj = False
                break
            for q in paths:
                if not q.complete:
                    r3.fail((fn, "not-evaluable"), "DIDUrl::join: a path could not be evaluated to the end (%s)" % q.note)
                    okj = False
                    continue
                nseg += 1
                calls = [e for e in q.events if e.kind == "call"]
                if not lead:
                    if not r3.require(SR.is_failure(q.ret) and not calls, (fn, "leading-delimiter"), "join(%r) is not rejected up front: a segment that does not start with '/', '?' or '#' reaches the parser (or succeeds)" % seg):
                        okj = False
                    continue
                js = [e for e in calls if (e.fn or "").endswith("DID::join")]
                if SR.is_success(q.ret) and not SR.is_failure(q.ret):
                    fb = [e for e in calls if (e.fn or "").endswith("from_base_did_url")]
                    okp = len(js) == 1 and js[0].args[1] == seg and len(fb) == 1 and SR.pure(fb[0].args[0], ("payload", js[0].result.t, "Ok", 0)) and SR.pure(q.ret, fb[0].result.t)
                    if not r3.require(okp, (fn, "via-gate"), "join(%r) does not return from_base_did_url(parse(self).join(segment)?)" % seg):
                        okj = False
                    base_ok = len(js) == 1 and SR.derives(js[0].args[0], ("param", "self"))
                    r3.require(base_ok, (fn, "base"), "join does not join the segment onto self")
            if lead and not any(SR.is_success(q.ret) and not SR.is_failure(q.ret) for q in paths):
                r3.fail((fn, "leading-delimiter"), "join(%r) can never succeed: a well-formed relative segment is rejected" % seg)
                okj = False
        r3.site("join folded on 14 representative segments (%d paths): non-delimited segments rejected before parsing; delimited ones → from_base_did_url(parse(self).join(seg)?): %s" % (nseg, okj))
    fn = DU + "::parse"
    if r3.anchor(F.hir(fn), fn):
        tab = SR.Table(F, fn, opaque=r"DIDUrl::from_base_did_url$|did_url_parser::did::DID::parse$", rule=r3)
        okp = bool(tab.ok())
        for q in tab.ok():
            fb = q.calls(r"DIDUrl::from_base_did_url$")
            if not r3.require(len(fb) == 1 and SR.pure(q.ret, fb[0].result.t), (fn, "via-gate"), "DIDUrl::parse does not return through from_base_did_url"):
                okp = False
            # the string handed to the parser is the input itself (no trimming, case folding or other normalisation): what is
            # accepted is what is printed back
            ps_ = q.calls(r"did_url_parser::did::DID::parse$")
            VERB = re.compile(r"(as_ref|as_str|borrow|deref|to_string|to_owned|into|from|clone|as_bytes)$")
            if not r3.require(len(ps_) == 1 and SR.pure(ps_[0].args[0], SR.param("input"), conv=VERB), (fn, "verbatim"), "DIDUrl::parse does not hand its input to the parser verbatim: %s" % ([sym.fmt(sym.term(e.args[0])) for e in ps_],)):
                okp = False
        r3.site("DIDUrl::parse returns from_base_did_url(..) on every accepting path: %s" % okp)
    r3.site("DIDUrl fields private; constructed only in new/from_base_did_url/map/try_map (or private helpers of these)")
    r3.floor(4)

    # ------------------------------------------------------------------ R5 Eq/Ord/Hash agreement
    r5 = R.rule("C10-R5", "T5", "RelativeDIDUrl eq/cmp/hash(Display) read the same three fields through the same projection, same field on both sides, in the order path, query, fragment; DIDUrl composes did then url")
    fields = [f["name"] for f in (F.adt_fields(REL) or [])]
    r5.require(sorted(fields) == ["fragment", "path", "query"], (REL, "fields"), "RelativeDIDUrl has fields %s; the sibling rules know path, query, fragment" % fields)
    P_ = lambda x: sym.Sym(("param", x))  # noqa: E731

    def rel(pfx):
        return sym.St(REL, {"path": sym.V("Some", (P_(pfx + "path"),)), "query": sym.V("Some", (P_(pfx + "query"),)), "fragment": sym.V("Some", (P_(pfx + "fragment"),))})
    rel_pairs = [(n_, ("param", "s" + n_), ("param", "o" + n_)) for n_ in ("path", "query", "fragment")]
    eqf = (F.find(r"^<identity_did::did_url::RelativeDIDUrl as core::cmp::PartialEq(<.*>)?>::eq$") or ["<RelativeDIDUrl as PartialEq>::eq"])[0]
    cmpf = "<" + REL + " as core::cmp::Ord>::cmp"
    if r5.anchor(F.hir(eqf), eqf):
        ok = SB.check_eq(r5, eqf, SB.explore(F, eqf, [rel("s"), rel("o")], rule=r5), rel_pairs)
        r5.site("RelativeDIDUrl::eq ⇔ path, query and fragment pairwise equal (same component on both sides): %s" % ok)
    if r5.anchor(F.hir(cmpf), cmpf):
        ok = SB.check_cmp(r5, cmpf, SB.explore(F, cmpf, [rel("s"), rel("o")], opaque=r"Ord::cmp$", rule=r5), rel_pairs)
        r5.site("RelativeDIDUrl::cmp is lexicographic over path, query, fragment: %s" % ok)
    df = "<" + REL + " as core::fmt::Display>::fmt"
    if r5.anchor(F.hir(df), df):
        ok = SB.check_display(r5, df, SB.explore(F, df, [rel("s"), P_("f")], rule=r5), [(n_, ("param", "s" + n_)) for n_ in ("path", "query", "fragment")])
        r5.site("RelativeDIDUrl Display = path ++ query ++ fragment: %s" % ok)
    hf = "<" + REL + " as core::hash::Hash>::hash"
    if r5.anchor(F.hir(hf), hf):
        ok = SB.check_hash_is_display(r5, hf, SB.explore(F, hf, [rel("s"), P_("state")], opaque=r"to_string$|Hash::hash$", rule=r5))
        r5.site("RelativeDIDUrl hash = hash(to_string()): %s" % ok)
    # DIDUrl composes did then url
    du = lambda pfx: sym.St(DU, {"did": P_(pfx + "did"), "url": P_(pfx + "url")})  # noqa: E731
    du_pairs = [(n_, ("param", "s" + n_), ("param", "o" + n_)) for n_ in ("did", "url")]
    deq = (F.find(r"^<identity_did::did_url::DIDUrl as core::cmp::PartialEq(<.*>)?>::eq$") or ["<DIDUrl as PartialEq>::eq"])[0]
    if r5.anchor(F.hir(deq), deq):
        ok = SB.check_eq(r5, deq, SB.explore(F, deq, [du("s"), du("o")], rule=r5), du_pairs)
        r5.site("DIDUrl::eq ⇔ did == did ∧ url == url: %s" % ok)
    dcmp = "<" + DU + " as core::cmp::Ord>::cmp"
    if r5.anchor(F.hir(dcmp), dcmp):
        ok = SB.check_cmp(r5, dcmp, SB.explore(F, dcmp, [du("s"), du("o")], opaque=r"Ord::cmp$|Ord>::cmp$", rule=r5), du_pairs)
        r5.site("DIDUrl::cmp = did.cmp(did) then url.cmp(url): %s" % ok)
    df = "<" + DU + " as core::fmt::Display>::fmt"
    if r5.anchor(F.hir(df), df):
        ok = SB.check_display(r5, df, SB.explore(F, df, [du("s"), P_("f")], opaque=r"CoreDID::as_str$|DID::as_str$", rule=r5), [("did", ("param", "sdid")), ("url", ("param", "surl"))],
                              proj=re.compile(r"(as_ref|as_str|deref|borrow|clone)$"))
        r5.site("DIDUrl Display = did.as_str() ++ url: %s" % ok)
    hf = "<" + DU + " as core::hash::Hash>::hash"
    if r5.anchor(F.hir(hf), hf):
        ok = SB.check_hash_is_display(r5, hf, SB.explore(F, hf, [du("s"), P_("state")], opaque=r"to_string$|Hash::hash$", rule=r5))
        r5.site("DIDUrl hash = hash(to_string()): %s" % ok)
    r5.floor(8)

    # ------------------------------------------------------------------ R6 character classes and percent-encoding
    r6 = R.rule("C10-R6", "T7", "character classes equal the W3C DID / RFC 3986 sets; a percent escape is '%' followed by exactly two hex digits in every validator")
    want_sets = {
        "identity_did::did::is_char_method_name": (S.DID_METHOD_CHAR, "method-char = %x61-7A / DIGIT"),
        "identity_did::did::is_char_method_id": (S.DID_IDCHAR | {ord(":")}, "idchar / ':'"),
        MOD + "::is_char_path": (PCHAR | {ord("/")}, "pchar / '/'"),
        MOD + "::is_char_query": (PCHAR | {ord("/"), ord("?")}, "pchar / '/' / '?'"),
        MOD + "::is_char_fragment": (PCHAR | {ord("/"), ord("?")}, "pchar / '/' / '?'"),
    }
    for fn, (w, desc) in want_sets.items():
        got, why = char_pred_set(F, fn)
        if not r6.require(got is not None, (fn, "not-extractable"), "%s cannot be folded over the code-point domain (%s); cannot compare it with the specification" % (L.short(fn), why)):
            continue
        r6.site("%s accepts %d code points (%s)" % (L.short(fn), len(got), desc))
        extra = sorted(got - w)
        missing = sorted(w - got)
        r6.require(not extra, (fn, "extra"), "%s accepts characters outside %s: %s" % (L.short(fn), desc, [chr(c) for c in extra][:12]))
        r6.require(not missing, (fn, "missing"), "%s rejects characters of %s: %s" % (L.short(fn), desc, [chr(c) for c in missing][:12]))
        r6.require(ord("%") not in got, (fn, "percent"), "%s accepts a bare '%%'" % L.short(fn))
    # percent escapes
    # percent escapes and URL segments: both validators are evaluated over a positional character stream and compared, world by
    # world, with their specification.  A world is a string of up to LMAX characters, each known only through what the code can
    # ask of it: == '%', is_ascii_hexdigit, the caller's character predicate, and its UTF-8 width (1 for '%' and hex digits,
    # 1..4 otherwise) — byte lengths (`s.len()`, `&s[i..]`) are decided from the widths.
    LMAX_ = 4
    fn = MOD + "::is_valid_percent_encoded_char"
    if r6.anchor(F.hir(fn), fn):
        def spec_escape(w):
            return len(w) >= 3 and w[0][0] == "P" and w[1][0] == "H" and w[2][0] == "H"

        def key_escape(w, acc):
            if not acc:
                return "rejects-valid"
            if not w or w[0][0] != "P":
                return "percent-sign"
            return "length" if len(w) < 3 else "hex-digits"
        stream_worlds(r6, F, fn, LMAX_, spec_escape, key_escape, "`%` HEXDIG HEXDIG …", with_pred=False)
    fn = MOD + "::is_valid_url_segment"
    if r6.anchor(F.hir(fn), fn):
        def spec_segment(w):
            i = 0
            while i < len(w):
                c = w[i][0]
                if c == "P":
                    if i + 2 < len(w) and w[i + 1][0] == "H" and w[i + 2][0] == "H":
                        i += 3
                        continue
                    return False
                if not w[i][1]:
                    return False
                i += 1
            return True

        def key_segment(w, acc):
            return "percent" if any(c[0] == "P" for c in w) else "predicate"
        stream_worlds(r6, F, fn, LMAX_, spec_segment, key_segment, "( pchar | `%` HEXDIG HEXDIG )*", with_pred=True)
    # method-id validator: evaluated abstractly over a positional character stream for every string of up to 4 characters, each
    # character known only through the three tests the code can make (== '%', is_ascii_hexdigit, is_char_method_id); accepted
    # exactly when the string matches ( idchar | "%" HEXDIG HEXDIG )*
    fn = DID + "::valid_method_id"
    if r6.anchor(F.hir(fn), fn):
        idset = CP.fn_accepted_set(F, "identity_did::did::is_char_method_id")
        idset = idset[0] if isinstance(idset, tuple) else idset
        r6.require(idset is not None and ord("%") not in idset and all(ord(c) in idset for c in "0123456789abcdefABCDEF"), (fn, "classes"),
                   "is_char_method_id must contain the hex digits and not '%' for the class model of the escape check")
        fns_ = {f.rsplit("::", 1)[-1] for f in L.called_fns_deep(F, fn)}
        r6.require("from_str_radix" not in fns_, (fn, "escape-check"),
                   "valid_method_id validates a percent escape with an integer parser (from_str_radix): that accepts a sign (\"%+4\", \"%+A\") or a truncated escape, which are not `%` HEXDIG HEXDIG")
        LMAX = 4
        ev = sym.Evaluator(F, opaque=r"is_char_method_id$|is_ascii_hexdigit$", inline_depth=4, loop_bound=LMAX + 2, char_streams=True)
        ev.max_stream_len = LMAX
        try:
            paths = [q for q in ev.explore(fn, max_paths=40000) if q.complete]
        except (sym.Abort, sym.TooManyPaths) as e:
            paths = []
            r6.fail((fn, "not-evaluable"), "valid_method_id could not be evaluated over a character stream: %s" % e)
        SRC = ("param", "value")

        def atoms(q):
            has, cls = {}, {}
            for (a, c, _, _) in q.decisions:
                if a[0] == "has" and a[1] == SRC:
                    has[a[2]] = bool(c)
                elif a[0] == "eq":
                    for x, y in ((a[1], a[2]), (a[2], a[1])):
                        if isinstance(x, tuple) and x[:2] == ("at", SRC) and y == ("lit", "%"):
                            cls[(x[2], "pct")] = bool(c)
                elif a[0] == "truth" and isinstance(a[1], tuple) and a[1][:1] == ("call",) and len(a[1][2]) == 1 and isinstance(a[1][2][0], tuple) and a[1][2][0][:2] == ("at", SRC):
                    k = a[1][2][0][2]
                    nm = re.sub(r"<[^<>]*>", "", a[1][1]).rsplit("::", 1)[-1]
                    if nm == "is_ascii_hexdigit":
                        cls[(k, "hex")] = bool(c)
                    elif nm == "is_char_method_id":
                        cls[(k, "id")] = bool(c)
                    else:
                        cls[(k, "?" + nm)] = bool(c)
                else:
                    cls[("?", sym.fmt(a))] = c
            return has, cls
        CLASSES = {"P": {"pct": True, "hex": False, "id": False}, "H": {"pct": False, "hex": True, "id": True}, "I": {"pct": False, "hex": False, "id": True}, "O": {"pct": False, "hex": False, "id": False}}

        def grammar(w):
            i = 0
            while i < len(w):
                if w[i] == "P":
                    if i + 2 < len(w) + 0 and w[i + 1] == "H" and w[i + 2] == "H":
                        i += 3
                    elif i + 2 <= len(w) - 1 and w[i + 1] == "H" and w[i + 2] == "H":
                        i += 3
                    else:
                        return False
                elif w[i] in ("H", "I"):
                    i += 1
                else:
                    return False
            return True
        import itertools
        words = [w for n in range(LMAX + 1) for w in ("".join(t) for t in itertools.product("PHIO", repeat=n))]
        tables = [(q, atoms(q)) for q in paths]
        bad = 0
        covered = 0
        for w in words:
            hit = False
            for q, (has, cls) in tables:
                if any(k[0] == "?" or (isinstance(k[1], str) and k[1].startswith("?")) for k in cls):
                    continue
                if any((k < len(w)) != v for k, v in has.items()):
                    continue
                if any(k >= len(w) or CLASSES[w[k]][what] != v for (k, what), v in cls.items()):
                    continue
                hit = True
                acc = SR.is_success(q.ret) and not SR.is_failure(q.ret)
                if acc != grammar(w):
                    bad += 1
                    r6.fail((fn, "escape-check" if "P" in w else "classes"), "valid_method_id %s a method id of the shape %s (P = '%%', H = hex digit, I = other idchar, O = other): not ( idchar | \"%%\" HEXDIG HEXDIG )* — path: %s" % (
                        "accepts" if acc else "rejects", w or "(empty)", q.describe()[:200]))
            if hit:
                covered += 1
            elif paths:
                r6.fail((fn, "no-path"), "no evaluated path of valid_method_id applies to a method id of the shape %r" % w)
        r6.site("valid_method_id ≡ ( idchar | %%HH )* on all %d class-strings of length ≤ %d (%d paths): %s" % (len(words), LMAX, len(paths), bad == 0 and covered == len(words)))
    r6.floor(8)



def _emptiness(q, t):
    """True / False / None: did path q establish that the string term t is empty — as `nonempty(t)`, `t == ""` or `t.is_empty()`"""
    v = q.val.get(("nonempty", t))
    if v is not None:
        return not v
    for (a, c, _, _) in q.decisions:
        if a[0] == "eq" and ((a[1] == ("lit", "") and a[2] == t) or (a[2] == ("lit", "") and a[1] == t)):
            return bool(c)
        if a[0] == "truth" and isinstance(a[1], tuple) and a[1][:1] == ("call",) and a[1][1].endswith("is_empty") and a[1][2] == (t,):
            return bool(c)
    return None


def stream_worlds(rule, F, fn, lmax, spec, key_of, spec_text, with_pred):
    """Evaluate the string validator `fn` over a positional character stream and compare it with `spec` on every world of up to
    `lmax` characters.  A character of a world is (cls, pred, width): cls 'P' ('%'), 'H' (ASCII hex digit) or 'O' (any other);
    pred the value of the caller's character predicate on it; width its UTF-8 length.  The decision prefixes of the evaluated
    paths form a tree; a world walks it by evaluating each decision atom concretely."""
    import itertools
    pname = sym.param_name(F, fn, 0, "s")
    src = ("param", pname)
    ev = sym.Evaluator(F, opaque=r"is_ascii_hexdigit$", inline_depth=3, loop_bound=lmax + 2, char_streams=True)
    ev.max_stream_len = lmax
    try:
        paths = list(ev.explore(fn, max_paths=20000))
    except (sym.Abort, sym.TooManyPaths) as e:
        rule.fail((fn, "not-evaluable"), "%s could not be evaluated over a character stream: %s" % (L.short(fn), e))
        return
    root = {}
    for q in paths:
        node = root
        for (a, c, _, _) in q.decisions:
            node.setdefault("atom", a)
            node = node.setdefault("kids", {}).setdefault(c, {})
        node["path"] = q
    pred_names = set()

    def value(a, w):
        """concrete value of a decision atom in the world w, or None when it is not one of the modelled questions"""
        def pos(t):
            return t[2] if isinstance(t, tuple) and t[:2] == ("at", src) and isinstance(t[2], int) else None

        def blen(t):
            if isinstance(t, tuple) and t[:1] == ("call",) and t[1].endswith("str::len") and len(t[2]) == 1:
                x = t[2][0]
                if x == src:
                    return sum(c[2] for c in w)
                if isinstance(x, tuple) and x[:2] == ("suffix", src):
                    return sum(c[2] for c in w[x[2]:])
            if isinstance(t, tuple) and t[:2] == ("bidx", src):
                return sum(c[2] for c in w[:t[2]])
            if isinstance(t, tuple) and t[:1] == ("call",) and t[1].endswith("::len") and len(t[2]) == 1 and bytes_of(t[2][0]) is not None:
                return len(bytes_of(t[2][0]))
            if isinstance(t, tuple) and t[:1] == ("lit",) and isinstance(t[1], int) and not isinstance(t[1], bool):
                return t[1]
            return None
        def bytes_of(t):
            """the byte classes of `s.as_bytes()` / `suffix.as_bytes()`: a one-byte character is its own class, a wider one is `width` bytes of class M"""
            # (`as_bytes` is a reference conversion the evaluator sees through: a str term that is indexed or slice-matched is its byte view)
            x = t[2][0] if isinstance(t, tuple) and t[:1] == ("call",) and t[1].endswith("str::as_bytes") and len(t[2]) == 1 else t
            if True:
                cs = w if x == src else (w[x[2]:] if isinstance(x, tuple) and x[:2] == ("suffix", src) else None)
                if cs is not None:
                    out = []
                    for c in cs:
                        out += [c] if c[2] == 1 else [("M", False, 1)] * c[2]
                    return out
            return None

        def byte_at(t):
            if isinstance(t, tuple) and t[:1] == ("index",) and isinstance(t[2], tuple) and t[2][:1] == ("lit",) and isinstance(t[2][1], int):
                bs = bytes_of(t[1])
                if bs is not None:
                    k = t[2][1] if t[2][1] >= 0 else len(bs) + t[2][1]
                    return bs[k] if 0 <= k < len(bs) else "oob"
            return None
        if a[0] == "slice-shape":
            bs = bytes_of(a[1])
            if bs is not None:
                return len(bs) == a[2] if a[3] else len(bs) >= a[2]
        if a[0] == "eq":
            for x, y in ((a[1], a[2]), (a[2], a[1])):
                b_ = byte_at(x)
                if b_ is not None and b_ != "oob" and y in (("lit", 37), ("lit", "%")):
                    return b_[0] == "P"
        if a[0] == "truth" and isinstance(a[1], tuple) and a[1][:1] == ("call",) and len(a[1][2]) == 1 and a[1][1].endswith("is_ascii_hexdigit"):
            b_ = byte_at(a[1][2][0])
            if b_ is not None and b_ != "oob":
                return b_[0] == "H"
        if a[0] == "has" and a[1] == src:
            return a[2] < len(w)
        if a[0] == "eq":
            for x, y in ((a[1], a[2]), (a[2], a[1])):
                k = pos(x)
                if k is not None and y == ("lit", "%"):
                    return k < len(w) and w[k][0] == "P"
        if a[0] == "truth" and isinstance(a[1], tuple) and a[1][:1] == ("call",) and len(a[1][2]) == 1 and pos(a[1][2][0]) is not None:
            k = pos(a[1][2][0])
            if k >= len(w):
                return None
            nm = re.sub(r"<[^<>]*>", "", a[1][1]).rsplit("::", 1)[-1]
            if nm == "is_ascii_hexdigit":
                return w[k][0] == "H"
            if with_pred:
                pred_names.add(nm)
                return w[k][1]
            return None
        if a[0] in ("lt", "le", "eq"):
            x, y = blen(a[1]), blen(a[2])
            if x is not None and y is not None:
                return {"lt": x < y, "le": x <= y, "eq": x == y}[a[0]]
        return None
    chars = [("P", False, 1)] + [("H", p_, 1) for p_ in ((True, False) if with_pred else (False,))] \
        + [("O", p_, n_) for p_ in ((True, False) if with_pred else (False,)) for n_ in (1, 2, 3, 4)]
    n_worlds = bad = 0
    reached = set()
    for n in range(lmax + 1):
        for w in itertools.product(chars, repeat=n):
            n_worlds += 1
            node = root
            why = None
            while "path" not in node:
                if "atom" not in node:
                    why = "the evaluation ends without a result"
                    break
                v = value(node["atom"], w)
                if v is None:
                    why = "it decides on %s, which is not a question about the characters or the byte length of the argument" % sym.fmt_atom(node["atom"])
                    break
                if v not in node["kids"]:
                    why = "no evaluated path takes %s = %s" % (sym.fmt_atom(node["atom"]), v)
                    break
                node = node["kids"][v]
            shape = "".join("P" if c[0] == "P" else ("H" if c[1] or not with_pred else "h") if c[0] == "H" else ("c" if c[1] else "o") + (str(c[2]) if c[2] > 1 else "") for c in w) or "(empty)"
            if why is None and not node["path"].complete:
                why = "its path is incomplete (%s)" % (getattr(node["path"], "abort", None) or "bounds")
            if why is not None:
                bad += 1
                rule.fail((fn, "not-evaluable"), "%s on a string of the shape %s: %s" % (L.short(fn), shape, why))
                if bad > 5:
                    break
                continue
            q = node["path"]
            reached.add(id(q))
            ret = q.ret[1] if isinstance(q.ret, tuple) and q.ret[:1] == ("lit",) else q.ret
            if ret is not True and ret is not False:
                bad += 1
                rule.fail((fn, "not-boolean"), "%s returns %s on a string of the shape %s" % (L.short(fn), sym.fmt(q.ret) if not isinstance(q.ret, bool) else q.ret, shape))
            elif ret != spec(w):
                bad += 1
                rule.fail((fn, key_of(w, ret)), "%s %s a string of the shape %s (P = '%%', H/h = hex digit, c/o = another character; lower-case h and o are rejected by the caller's predicate; a digit is the UTF-8 width): not %s" % (
                    L.short(fn), "accepts" if ret else "rejects", shape, spec_text))
        if bad > 5:
            break
    rule.require(len(pred_names) <= 1, (fn, "predicates"), "%s asks more than one predicate about a character: %s" % (L.short(fn), sorted(pred_names)))
    rule.site("%s ≡ %s on all %d worlds of ≤ %d characters (%d paths, %d reached): %s" % (L.short(fn), spec_text, n_worlds, lmax, len(paths), len(reached), bad == 0))


def check_validity_guards(F, r1):
    """CoreDID::check_validity: name ✓, id ✓, scheme, and *presence* (not non-emptiness) of path/query/fragment rejected"""
    # check_validity's guards
    fn = DID + "::check_validity"
    h = F.hir(fn)
    if r1.anchor(h, fn):
        env = H.Env(h)
        tree, infos = L.exit_infos(h)
        for e in infos:
            if not L.is_success_exit(e):
                continue
            tried = {(H.fn_name(c) or "").rsplit("::", 1)[-1] for c in e.tried}
            r1.require({"valid_method_name", "valid_method_id"} <= tried, (fn, "name-id"), "check_validity can succeed without valid_method_name and valid_method_id: %s" % sorted(tried))
            seen = {}
            for c in e.conds:
                if c[0] != "if" or c[2] is not False:
                    continue
                for d in H.disjuncts(c[1]):
                    inner, neg = H.negated(d)
                    inner = H.strip(inner)
                    fns = {f.rsplit("::", 1)[-1] for f in H.called_fns(inner)}
                    if inner.get("k") == "binary" and inner.get("op") == "Ne" and "scheme" in fns:
                        seen["scheme"] = True
                    if neg and "path" in fns and "is_empty" in fns:
                        seen["path"] = True
                    if not neg and "fragment" in fns and "is_some" in fns:
                        seen["fragment"] = True
                    if not neg and "query" in fns and "is_some" in fns:
                        seen["query"] = True
            r1.site("check_validity Ok guarded by: %s" % sorted(seen), e.node.get("sp"))
            for k in ("scheme", "path", "fragment", "query"):
                r1.require(seen.get(k), (fn, "guard", k), "check_validity can succeed without rejecting a %s" % ("wrong scheme" if k == "scheme" else "non-empty " + k))
        for c in H.calls(h, re.compile(r"CoreDID::valid_method_(name|id)$")):
            oo = H.origins(c["args"][0], env, accessors=BASE_ACC)
            want = "method" if c["fn"].endswith("name") else "method_id"
            r1.require(oo == {("param", "did", want)}, (fn, "arg", want), "%s is not applied to did.%s(): %s" % (L.short(c["fn"]), want, sorted(map(str, oo))))
