"""Development regression harness (not a registered check).

  regress.py build            extract facts once for every patch of benign/, seeded/, mutants/ applied to a scratch copy of /repo
  regress.py run [PIDS..]     run the property modules over the cached fact sets and compare with the expectation:
                              benign → silent for every property; seed/mutant → reported by (one of) its properties

Fact sets live under /tmp/verif-regress (development only; nothing registered depends on it).
"""
import hashlib
import importlib
import json
import os
import shutil
import subprocess
import sys
import time

sys.path.insert(0, os.path.dirname(os.path.abspath(__file__)))
import extract  # noqa: E402
from facts import Facts  # noqa: E402
from report import Reporter, VERIF  # noqa: E402

ROOT = "/tmp/verif-regress"
PIDS = ["C%02d" % i for i in range(1, 21)]


def patches():
    out = []
    for d in sorted(os.listdir(os.path.join(VERIF, "benign"))):
        out.append(("benign/" + d, os.path.join(VERIF, "benign", d, "patch.diff"), "benign", []))
    for d in sorted(os.listdir(os.path.join(VERIF, "seeded"))):
        m = json.load(open(os.path.join(VERIF, "seeded", d, "meta.json")))
        pids = sorted({k.split("-")[0] for k in m.get("caught_by", []) if k[:1] == "C"} | {m["property"]})
        out.append(("seeded/" + d, os.path.join(VERIF, "seeded", d, "patch.diff"), "seed", pids))
    idx = json.load(open(os.path.join(VERIF, "mutants", "index.json")))
    for f, pids in sorted(idx.items()):
        out.append(("mutants/" + f[:22], os.path.join(VERIF, "mutants", f), "mutant", pids))
    return out


def sha(p):
    import re
    return hashlib.sha256(re.sub(rb'"extract_ms":\s*\d+', b"", open(p, "rb").read())).hexdigest()


def build(only=None, resume=False):
    os.makedirs(ROOT, exist_ok=True)
    head_t = int(subprocess.run(["git", "-C", extract.REPO, "log", "-1", "--format=%ct"], capture_output=True, text=True).stdout.strip() or 0)
    base_dir, _ = extract.extract("workspace")
    base = os.path.join(ROOT, "facts", "_base")
    shutil.rmtree(base, ignore_errors=True)
    shutil.copytree(base_dir, base)
    base_hash = {f: sha(os.path.join(base, f)) for f in os.listdir(base) if f.endswith(".json") and f != "STAMP.json"}
    scratch = os.path.join(ROOT, "scratch")
    repo = os.path.join(scratch, "repo")
    shutil.rmtree(scratch, ignore_errors=True)
    os.makedirs(scratch)
    subprocess.run(["rsync", "-a", "--exclude", "/target", "--exclude", ".git", "--exclude", "node_modules", extract.REPO + "/", repo + "/"], check=True)
    for name, patch, kind, pids in patches():
        if only and not any(o in name for o in only):
            continue
        dst = os.path.join(ROOT, "facts", name.replace("/", "__"))
        t0 = time.time()
        cj = os.path.join(dst, "CHANGED.json")
        if resume and os.path.exists(cj) and os.path.getmtime(cj) > max(head_t, os.path.getmtime(patch)):
            continue        # built after the current HEAD was committed and after the patch was last written
        a = subprocess.run(["git", "apply", "--whitespace=nowarn", patch], cwd=repo, capture_output=True, text=True)
        if a.returncode != 0:
            print("SKIP (does not apply)", name)
            continue
        try:
            d, st = extract.extract("workspace", repo=repo, facts_name="facts-regress")
            shutil.rmtree(dst, ignore_errors=True)
            os.makedirs(dst)
            changed = []
            for f in base_hash:
                if sha(os.path.join(d, f)) != base_hash[f]:
                    shutil.copy(os.path.join(d, f), os.path.join(dst, f))
                    changed.append(f[:-5])
                else:
                    os.symlink(os.path.join(base, f), os.path.join(dst, f))
            json.dump({"changed": changed}, open(os.path.join(dst, "CHANGED.json"), "w"))
            print("built %-46s %.1fs changed=%s" % (name, time.time() - t0, changed), flush=True)
        except SystemExit as e:
            print("FAILED", name, str(e)[:100])
        finally:
            subprocess.run(["git", "apply", "-R", "--whitespace=nowarn", patch], cwd=repo, capture_output=True)
    shutil.rmtree(scratch, ignore_errors=True)
    shutil.rmtree(os.path.join(extract.WORK, "facts-regress"), ignore_errors=True)


def known_keys():
    return {f["key"] for f in json.load(open(os.path.join(VERIF, "known_findings.json"))).get("findings", [])}


def run_one(job):
    """one patch: returns (ok, text)"""
    import rulelib
    (name, kind, want), pids, verbose = job
    known = known_keys()
    d = os.path.join(ROOT, "facts", name.replace("/", "__"))
    if not os.path.isdir(d):
        return True, "no facts for %s" % name
    mods = {p: importlib.import_module(p.lower()) for p in pids}
    F = Facts(d)
    fired = {}
    for p in pids:
        if kind in ("seed", "mutant") and want and p not in want and not verbose:
            continue
        rulelib._SUB.clear()
        R = Reporter(p, "quick")
        try:
            mods[p].run(F, R, "quick")
            keys = [k for r in R.rules for k, _, _ in r.fails if k not in known]
        except Exception as e:
            import traceback
            keys = ["CRASH|%s|%s" % (type(e).__name__, str(e)[:160])]
            if verbose:
                traceback.print_exc()
        if keys:
            fired[p] = keys
    if kind in ("benign", "base"):
        ok = not fired
        status = "silent" if ok else "FALSE-ALARM"
    else:
        hit = [p for p in want if p in fired and p in pids]
        relevant = [p for p in want if p in pids]
        if not relevant:
            return True, None
        ok = bool(hit)
        status = "detected" if ok else "MISSED"
    out = ["%-12s %s" % (status, name)]
    if not ok or verbose:
        for p, ks in fired.items():
            for k in ks[:6]:
                out.append("      %s" % k[:230])
    return ok, "\n".join(out)


def run(pids, only=None, verbose=False, jobs=1):
    t00 = time.time()
    todo = [((name, kind, want), pids, verbose) for name, patch, kind, want in [("_base", None, "base", [])] + patches()
            if not (only and not any(o in name for o in only) and name != "_base")]
    bad = 0
    if jobs > 1:
        import concurrent.futures as cf
        with cf.ProcessPoolExecutor(jobs) as ex:
            results = ex.map(run_one, todo, chunksize=1)
            for ok, text in results:
                if text:
                    print(text, flush=True)
                bad += 0 if ok else 1
    else:
        for j in todo:
            ok, text = run_one(j)
            if text:
                print(text, flush=True)
            bad += 0 if ok else 1
    print("-- %d problem(s), %.0fs" % (bad, time.time() - t00))
    return bad


if __name__ == "__main__":
    cmd = sys.argv[1]
    a = sys.argv[2:]
    only = None
    if "--only" in a:
        i = a.index("--only")
        only = a[i + 1].split(",")
        a = a[:i] + a[i + 2:]
    jobs = 1
    if "-j" in a:
        i = a.index("-j")
        jobs = int(a[i + 1])
        a = a[:i] + a[i + 2:]
    verbose = "-v" in a
    a = [x for x in a if x not in ("-v", "--resume")]
    if cmd == "build":
        build(only, "--resume" in sys.argv)
    else:
        sys.exit(1 if run([x.upper() for x in a] or PIDS, only, verbose, jobs) else 0)
