#!/bin/sh
# usage: rules/try_patch.sh <patch.diff> <PID> [<PID>...]   — apply a seeded change to /repo, run checks, undo.
P="$1"; shift
cd /repo && git apply "$P" || { echo "patch does not apply"; exit 2; }
trap 'git -C /repo checkout -- . ' EXIT
for pid in "$@"; do
  (cd /verif && VERIF_EVIDENCE_DIR=/tmp/verif-try-evidence ./check "$pid" 2>&1 | grep -E "^(FINDING|VIOLATION|KNOWN|C[0-9]+ \[|fact extraction)" | cut -c1-400)
done
