#!/bin/sh
# Build the fact-extraction driver offline and warm the extraction target directory.
set -e
HERE="$(cd "$(dirname "$0")" && pwd)"
export CARGO_NET_OFFLINE=true
cd "$HERE"
python3 rules/extract.py --force
